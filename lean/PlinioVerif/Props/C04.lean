import PlinioVerif.Props.C09
/-!
# C04 — PIT cost equals the real cost of the network that export would produce

Statements about the executable model: `nodeParams/nodeOps` is what `PIT._get_single_cost` charges
a layer with `discrete_cost=True` (the `params` / `ops` specifications), `exportedNodeParams/Ops`
the same metric of the layer `export` builds from the export plan (number of kept output features
x kept input features x alive taps, plus biases).  For every program and mask assignment.
-/
namespace PlinioVerif.C04
open PlinioVerif.PIT

/-- the number of features `export` keeps is the number of alive ones -/
theorem keptIdx_length (m : List Bool) : (keptIdx m).length = countT m := by
  unfold keptIdx countT
  induction m using List.reverseRecOn with
  | nil => rfl
  | append_singleton m b ih =>
    rw [List.length_append, List.length_singleton, List.range_succ, List.filter_append, List.filter_append,
      List.length_append, List.length_append]
    have h1 : (List.range m.length).filter (fun i => (m ++ [b]).getD i false)
        = (List.range m.length).filter (fun i => m.getD i false) := by
      apply List.filter_congr
      intro i hi
      simp only [List.mem_range] at hi
      simp [List.getD_eq_getElem?_getD, List.getElem?_append_left hi]
    rw [h1, ih]
    cases b <;> simp [List.getD_eq_getElem?_getD]

variable (p : Prog) (ms : List (List Bool))

/-- a depthwise layer's alive outputs are as many as the alive features feeding it (what the mask
sharing guarantees on supported programs, see `C09.depthwise_follows_input`) -/
def DwAligned : Prop :=
  ∀ n s a, getOp p n = .dw s a → countT (inMask p ms n) = countT (ms.getD n [])

/-- **layer by layer, the discrete `params` cost is the cost of the exported layer**: number of
weights and biases of the Conv/Linear that `export` builds -/
theorem node_params_eq_export (hdw : DwAligned p ms) (n : ℕ) (hs : (getOp p n).searchable = true) :
    nodeParams p ms false n = exportedNodeParams p ms n := by
  unfold nodeParams exportedNodeParams planOf
  simp only [keptIdx_length]
  cases hop : getOp p n with
  | conv s c a => simp only; ring
  | dw s a => simp only; rw [hdw n s a hop]; ring
  | lin s c a => simp only; ring
  | _ => simp_all [Op.searchable]

/-- a layer invoked again has, at the new call site, as many alive outputs and as many alive input
features as where it is defined (what tying the call sites and their inputs to one masker
guarantees on supported programs, see `reuseAligned_of_supported`) -/
def ReuseAligned : Prop :=
  ∀ n s o ls c a, getOp p n = .reuse s o ls c a →
    countT (ms.getD n []) = countT (ms.getD o []) ∧ countT (inMask p ms n) = countT (inMask p ms o)

/-- … and a depthwise layer invoked again sees, at the new call site, as many alive features as
where it is defined -/
def ReuseDwAligned : Prop :=
  ∀ n s o ls a, getOp p n = .reuseDw s o ls a → countT (inMask p ms n) = countT (ms.getD o [])

theorem node_ops_eq_export (hdw : DwAligned p ms) (n : ℕ) (hs : (getOp p n).searchable = true) :
    nodeOps p ms false n = exportedNodeOps p ms n := by
  unfold nodeOps exportedNodeOps
  rw [node_params_eq_export p ms hdw n hs]
  cases hop : getOp p n <;> simp_all [Op.searchable]

/-- layers that are not searchable are not charged without `full_cost` -/
theorem node_params_not_searchable (n : ℕ) (hs : (getOp p n).searchable = false) :
    nodeParams p ms false n = 0 ∧ exportedNodeParams p ms n = 0 := by
  unfold nodeParams exportedNodeParams
  cases hop : getOp p n <;> simp_all [Op.searchable]

/-- **C04, headline**: the discrete `params` cost of the PIT model is the number of weights and
biases of the searchable layers of the exported network … -/
theorem discrete_params_eq_export_params (hdw : DwAligned p ms) :
    costParams p ms false = exportedParams p ms := by
  unfold costParams exportedParams
  congr 1
  apply List.map_congr_left
  intro n _
  cases hs : (getOp p n).searchable
  · obtain ⟨h1, h2⟩ := node_params_not_searchable p ms n hs; rw [h1, h2]
  · exact node_params_eq_export p ms hdw n hs

/-- a call site of a layer invoked again is charged (per-invocation metric) what the *one*
exported layer costs at that call site -/
theorem reuse_ops_eq_export (hre : ReuseAligned p ms) (n s o ls c : ℕ) (a : LAttr)
    (hop : getOp p n = .reuse s o ls c a) : nodeOps p ms false n = exportedNodeOps p ms n := by
  obtain ⟨h1, h2⟩ := hre n s o ls c a hop
  unfold nodeOps exportedNodeOps siteParams planOf
  rw [hop]
  simp only [keptIdx_length]
  rw [h1, h2]
  cases getOp p o <;> simp only <;> ring

/-- … and the discrete `ops` cost is the operation count of the exported network (every call site
of a layer invoked more than once charged with its own output size) -/
theorem discrete_ops_eq_export_ops (hdw : DwAligned p ms) (hre : ReuseAligned p ms)
    (hrd : ReuseDwAligned p ms) :
    costOps p ms false = exportedOps p ms := by
  unfold costOps exportedOps
  congr 1
  apply List.map_congr_left
  intro n _
  cases hs : (getOp p n).searchable
  · cases hop : getOp p n with
    | reuse s o ls c a => exact reuse_ops_eq_export p ms hre n s o ls c a hop
    | reuseDw s o ls a =>
      have h := hrd n s o ls a hop
      unfold nodeOps exportedNodeOps planOf
      rw [hop]
      simp only [keptIdx_length]
      rw [h]; ring
    | _ =>
      unfold nodeOps exportedNodeOps
      obtain ⟨h1, h2⟩ := node_params_not_searchable p ms n hs
      simp_all [Op.searchable]
  · exact node_ops_eq_export p ms hdw n hs

/-- the hypothesis of the two theorems holds for the masks the features calculators report on
every supported program -/
theorem dwAligned_of_supported (l : List ℕ) (α : ℕ → List Rat) (hl : computeLabels p = some l)
    (hws : wellShaped p = true) (hsup : supported p = true) :
    DwAligned p (aliveMasks p l α) := by
  intro n s a hop
  by_cases hn : n < p.length
  · have hop' : p[n] = .dw s a := by rw [← getOp_eq p n hn]; exact hop
    have := C09.depthwise_follows_input p l α hl hws hsup n s a hn hop'
    unfold inMask; rw [hop]; simp only [Op.inputs, List.headD_cons]; rw [this]
  · unfold getOp at hop
    rw [List.getD_eq_getElem?_getD, List.getElem?_eq_none (by omega)] at hop
    cases hop

/-- … and so does the hypothesis on layers invoked again -/
theorem reuseAligned_of_supported (l : List ℕ) (α : ℕ → List Rat) (hl : computeLabels p = some l)
    (hws : wellShaped p = true) (hsup : supported p = true) :
    ReuseAligned p (aliveMasks p l α) := by
  intro n s o ls c a hop
  by_cases hn : n < p.length
  · have hop' : p[n] = .reuse s o ls c a := by rw [← getOp_eq p n hn]; exact hop
    obtain ⟨h1, h2⟩ := C09.reused_layer_sites_tied p l α hl hws hsup n s o ls c a hn hop'
    obtain ⟨-, -, hkind⟩ := reuse_wf p hws n s o ls c a hn hop'
    have hino : inMask p (aliveMasks p l α) o = (aliveMasks p l α).getD ls [] := by
      unfold inMask
      rcases hkind with ⟨a', hg⟩ | ⟨a', hg⟩ <;> rw [hg] <;> rfl
    have hinn : inMask p (aliveMasks p l α) n = (aliveMasks p l α).getD s [] := by
      unfold inMask; rw [hop]; rfl
    rw [hino, hinn, h1, h2]
    exact ⟨rfl, rfl⟩
  · unfold getOp at hop
    rw [List.getD_eq_getElem?_getD, List.getElem?_eq_none (by omega)] at hop
    cases hop

theorem reuseDwAligned_of_supported (l : List ℕ) (α : ℕ → List Rat) (hl : computeLabels p = some l)
    (hws : wellShaped p = true) (hsup : supported p = true) :
    ReuseDwAligned p (aliveMasks p l α) := by
  intro n s o ls a hop
  by_cases hn : n < p.length
  · have hop' : p[n] = .reuseDw s o ls a := by rw [← getOp_eq p n hn]; exact hop
    obtain ⟨h1, h2⟩ := C09.reused_depthwise_sites_tied p l α hl hws hsup n s o ls a hn hop'
    have hinn : inMask p (aliveMasks p l α) n = (aliveMasks p l α).getD s [] := by
      unfold inMask; rw [hop]; rfl
    rw [hinn, ← h1, h2]
  · unfold getOp at hop
    rw [List.getD_eq_getElem?_getD, List.getElem?_eq_none (by omega)] at hop
    cases hop

/-- with every mask open a layer is charged its static size: the cost of the original model -/
theorem open_masks_node_cost (n s c : ℕ) (a : LAttr) (hop : getOp p n = .conv s c a)
    (hout : ms.getD n [] = List.replicate c true)
    (hin : inMask p ms n = List.replicate ((widths p).getD s 0) true) :
    nodeParams p ms false n = c * ((widths p).getD s 0 * a.k + b2n a.bias) := by
  unfold nodeParams
  rw [hop, hout, hin]
  simp [countT]

end PlinioVerif.C04
