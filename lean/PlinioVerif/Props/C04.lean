import PlinioVerif.Model.PIT.Net
import Mathlib.Data.List.Induction
/-!
# C04 — PIT cost equals the real cost of the network that export would produce
(first part; extended below as the network-level lemmas land)
-/
namespace PlinioVerif.C04
open PlinioVerif.PIT

/-- the number of features `export` keeps is the number of alive ones -/
theorem keptIdx_length (m : List Bool) : (keptIdx m).length = countT m := by
  unfold keptIdx countT
  induction m using List.reverseRecOn with
  | nil => rfl
  | append_singleton m b ih =>
    rw [List.length_append, List.length_singleton, List.range_succ, List.filter_append, List.filter_append,
      List.length_append, List.length_append]
    have h1 : (List.range m.length).filter (fun i => (m ++ [b]).getD i false)
        = (List.range m.length).filter (fun i => m.getD i false) := by
      apply List.filter_congr
      intro i hi
      simp only [List.mem_range] at hi
      simp [List.getD_eq_getElem?_getD, List.getElem?_append_left hi]
    rw [h1, ih]
    cases b <;> simp [List.getD_eq_getElem?_getD]

end PlinioVerif.C04
