import PlinioVerif.Lemmas.Train
/-!
# C11 — trainability controls do what they say under every sequence of calls

Property theorems only.  `Train.step` is the model of `train_nas_only / train_net_only /
train_net_and_nas`, the `train_features / train_rf / train_dilation / discrete_cost` setters,
`update_softmax_options` and `forward + backward(loss + cost)` on PIT, MPS and SuperNet models
(tied to the code by `harness/props/c11.py`).  Statements quantify over **every** model structure
(any tensors, any layers, any sharing of maskers / quantizers between layers) and over **every**
sequence of calls (`run s ops`, no length bound).  Tensors are addressed by their position in the
tensor table; `isParamAt` says whether a position holds an `nn.Parameter` (a frozen PIT mask is a
buffer: fix 9862c46).
-/
namespace PlinioVerif.C11
open PlinioVerif.Train
open PlinioVerif.Sampling (Opts Sampler snChoose mpsChoose updOpts)

/-! ## the two parameter groups partition the parameters -/

/-- **partition**: `named_nas_parameters` followed by `named_net_parameters` is a re-ordering of
`named_parameters`; neither lists anything twice (shared maskers / quantizers are reported once,
however many layers refer to them) and nothing is in both -/
theorem nas_net_partition (s : State) :
    (nasIds s ++ netIds s).Perm (paramIds s) ∧ (nasIds s).Nodup ∧ (netIds s).Nodup ∧
    (∀ i, i ∈ nasIds s → i ∉ netIds s) := by
  refine ⟨?_, nasIds_nodup s, netIds_nodup s, fun i hi hn => (mem_netIds.mp hn).2 hi⟩
  have h1 : ((paramIds s).filter fun i => (nasIds s).contains i).Perm (nasIds s) := by
    apply (List.perm_ext_iff_of_nodup ((paramIds_nodup s).filter _) (nasIds_nodup s)).mpr
    intro i
    simp only [List.mem_filter, List.contains_eq_mem, decide_eq_true_eq]
    exact ⟨fun h => h.2, fun h => ⟨nasIds_sub h, h⟩⟩
  have h2 := List.filter_append_perm (fun i => (nasIds s).contains i) (paramIds s)
  refine (List.Perm.append h1.symm ?_).trans h2
  unfold netIds
  exact List.Perm.refl _

/-- **each exactly once**: every parameter occurs exactly once in the two lists taken together,
and nothing that is not a parameter (a frozen mask, any other buffer) occurs at all -/
theorem each_parameter_exactly_once (s : State) (i : Nat) :
    (nasIds s ++ netIds s).count i = if isParamAt s.ts i then 1 else 0 := by
  rw [(nas_net_partition s).1.count_eq]
  split
  · rename_i h
    exact List.count_eq_one_of_mem (paramIds_nodup s) (mem_paramIds.mpr h)
  · rename_i h
    exact List.count_eq_zero_of_not_mem (fun hm => h (mem_paramIds.mp hm))

/-- a shared masker / quantizer referenced by any number of layers is a NAS parameter once -/
theorem shared_listed_once (s : State) (i : Nat) (h : i ∈ s.layers.flatMap (·.refs))
    (hp : isParamAt s.ts i = true) : (nasIds s).count i = 1 :=
  List.count_eq_one_of_mem (nasIds_nodup s) (mem_nasIds.mpr ⟨h, hp⟩)

/-- the lists (hence the partition) are the same after every sequence of calls: no call turns a
buffer into a parameter, moves a parameter between the groups or changes the sharing -/
theorem partition_after_any_history (s : State) (ops : List Op) :
    paramIds (run s ops) = paramIds s ∧ nasIds (run s ops) = nasIds s ∧
    netIds (run s ops) = netIds s := run_lists ops s

/-! ## `train_*` make exactly the named group trainable -/

/-- **train_X sets exactly its group**, from any state: after `train_nas_only` a parameter requires
grad iff it is a NAS parameter; after `train_net_only` iff it is not; after `train_net_and_nas`
every parameter does; what is not a parameter keeps its flag -/
theorem train_X_sets_exactly_group (s : State) (i : Nat) (hi : i < s.ts.length) :
    rgAt (step s .nasOnly).ts i =
      (if isParamAt s.ts i then (nasIds s).contains i else rgAt s.ts i) ∧
    rgAt (step s .netOnly).ts i =
      (if isParamAt s.ts i then !(nasIds s).contains i else rgAt s.ts i) ∧
    rgAt (step s .netAndNas).ts i = (if isParamAt s.ts i then true else rgAt s.ts i) := by
  have hnet : (netIds s).contains i = (isParamAt s.ts i && !(nasIds s).contains i) := by
    rw [Bool.eq_iff_iff]
    simp only [List.contains_eq_mem, decide_eq_true_eq, Bool.and_eq_true, Bool.not_eq_true',
      decide_eq_false_iff_not]
    exact mem_netIds
  have hnas : (nasIds s).contains i = true → isParamAt s.ts i = true := by
    intro h
    exact (mem_nasIds.mp (by simpa using h)).2
  simp only [step, rgAt_setRg, setRg_length, hnet, hi, and_true]
  cases hp : isParamAt s.ts i <;> cases hn : (nasIds s).contains i <;> simp_all

/-- the group flags right after a `train_*` call, list-wise: every NAS parameter / every network
parameter carries exactly the flag the call names -/
theorem train_X_group_flags (s : State) (i : Nat) :
    (i ∈ nasIds s → rgAt (step s .nasOnly).ts i = true ∧ rgAt (step s .netOnly).ts i = false ∧
        rgAt (step s .netAndNas).ts i = true) ∧
    (i ∈ netIds s → rgAt (step s .nasOnly).ts i = false ∧ rgAt (step s .netOnly).ts i = true ∧
        rgAt (step s .netAndNas).ts i = true) := by
  constructor
  · intro h
    have hp := (mem_nasIds.mp h).2
    have hi := isParamAt_lt hp
    obtain ⟨h1, h2, h3⟩ := train_X_sets_exactly_group s i hi
    simp [h1, h2, h3, hp, h]
  · intro h
    have hp := (mem_netIds.mp h).1
    have hn := (mem_netIds.mp h).2
    have hi := isParamAt_lt hp
    obtain ⟨h1, h2, h3⟩ := train_X_sets_exactly_group s i hi
    simp [h1, h2, h3, hp, hn]

/-! ## frozen masks -/

/-- **frozen masks never become trainable**: in a model built by the classes' constructors, after
every sequence of `train_*` calls, setter calls, option updates and forward/backward passes, every
frozen mask is still a buffer with `requires_grad = False`, and is in neither parameter list -/
theorem frozen_never_trainable (s : State) (hb : BuiltOK s) (ops : List Op) :
    ∀ t ∈ (run s ops).ts, t.frozen = true → t.rg = false ∧ t.isParam = false := by
  intro t ht hf
  have := run_frozenOK ops s (builtOK_frozenOK hb) t ht hf
  exact ⟨this.2, this.1⟩

/-- **frozen masks never receive a gradient**: after every sequence of calls, `forward +
backward(loss + cost)` leaves `.grad is None` on every frozen mask -/
theorem frozen_never_in_grad_path (s : State) (hb : BuiltOK s) (ops : List Op) :
    ∀ t ∈ (run s ops).ts, t.frozen = true → gradOf (run s ops) t = .none := by
  intro t ht hf
  have := run_frozenOK ops s (builtOK_frozenOK hb) t ht hf
  simp [gradOf, gradOfR, this.1]

/-- frozen masks are in no parameter list, after every sequence of calls -/
theorem frozen_in_no_parameter_list (s : State) (hb : BuiltOK s) (ops : List Op) (i : Nat)
    (t : Tensor) (hi : (run s ops).ts[i]? = some t) (hf : t.frozen = true) :
    i ∉ nasIds (run s ops) ∧ i ∉ netIds (run s ops) := by
  have := run_frozenOK ops s (builtOK_frozenOK hb) t (List.mem_of_getElem? hi) hf
  have hp : isParamAt (run s ops).ts i = false := by simp [isParamAt, hi, this.1]
  constructor
  · intro h; have := (mem_nasIds.mp h).2; simp [hp] at this
  · intro h; have := (mem_netIds.mp h).1; simp [hp] at this

/-- the `train_features / train_rf / train_dilation` setters write exactly the non-frozen masks of
the layers exposing the attribute, and nothing else -/
theorem setter_writes_only_unfrozen_masks (s : State) (b : Bool) (i : Nat) :
    (step s (.setFeatures b)).ts[i]? = s.ts[i]?.map (fun t =>
      if (s.layers.filterMap (·.fm)).contains i && !t.frozen then { t with rg := b } else t) ∧
    (step s (.setRf b)).ts[i]? = s.ts[i]?.map (fun t =>
      if (s.layers.filterMap (·.tm)).contains i && !t.frozen then { t with rg := b } else t) ∧
    (step s (.setDilation b)).ts[i]? = s.ts[i]?.map (fun t =>
      if (s.layers.filterMap (·.dm)).contains i && !t.frozen then { t with rg := b } else t) :=
  ⟨setTrainable_getElem? _ _ _ _, setTrainable_getElem? _ _ _ _, setTrainable_getElem? _ _ _ _⟩

/-! ## sampling options -/

/-- **partial update**: an `update_softmax_options` call leaves every option it is not given as it
was, on every quantizer / combiner; the sampler is the one the stored flags select, so when neither
`gumbel` nor `disable_sampling` is given the sampler does not change -/
theorem partial_update_preserves_others (s : State) (hq : QtzOK s) (t : Option Rat)
    (h g d : Option Bool) (j : Nat) (q : Qtz) (hj : s.qs[j]? = some q) :
    ∃ q', (step s (.upd t h g d)).qs[j]? = some q' ∧
      (t = none → q'.o.temperature = q.o.temperature) ∧ (h = none → q'.o.hard = q.o.hard) ∧
      (g = none → q'.o.gumbel = q.o.gumbel) ∧ (d = none → q'.o.disable = q.o.disable) ∧
      q'.o.training = q.o.training ∧ q'.thetaGraph = q.thetaGraph ∧
      q'.sampler = chooseFor s.method q'.o ∧ (g = none → d = none → q'.sampler = q.sampler) := by
  have hs := hq q (List.mem_of_getElem? hj)
  simp only [step, List.getElem?_mapIdx, hj, Option.map_some]
  by_cases hr : (reached s).contains j = true
  · simp only [hr, if_true]
    refine ⟨_, rfl, ?_⟩
    cases hm : s.method <;>
      simp_all [updQ, updOpts, chooseFor, snChoose, mpsChoose] <;> rfl
  · simp only [hr]
    exact ⟨q, rfl, fun _ => rfl, fun _ => rfl, fun _ => rfl, fun _ => rfl, rfl, rfl, hs,
      fun _ _ => rfl⟩

/-- the bound sampler of every quantizer / combiner is the function of its stored flags after
every sequence of calls -/
theorem sampler_follows_flags_after_any_history (s : State) (hq : QtzOK s) (ops : List Op) :
    QtzOK (run s ops) := run_qtzOK ops s hq

/-- the two families of controls do not interfere: `train_*` and the PIT setters never touch a
sampling option; option updates, `discrete_cost` and forward/backward never touch a
`requires_grad` flag -/
theorem controls_are_orthogonal (s : State) (b : Bool) (t : Option Rat) (h g d : Option Bool) :
    (step s .nasOnly).qs = s.qs ∧ (step s .netOnly).qs = s.qs ∧ (step s .netAndNas).qs = s.qs ∧
    (step s (.setFeatures b)).qs = s.qs ∧ (step s (.setRf b)).qs = s.qs ∧
    (step s (.setDilation b)).qs = s.qs ∧ (step s (.setDiscrete b)).qs = s.qs ∧
    (step s (.upd t h g d)).ts = s.ts ∧ (step s (.setDiscrete b)).ts = s.ts ∧
    (step s .fwdbwd).ts = s.ts :=
  ⟨rfl, rfl, rfl, rfl, rfl, rfl, rfl, rfl, rfl, rfl⟩

/-! ## closed form over all histories -/

/-- **all histories**: for a parameter no PIT setter refers to (every network weight, every MPS
quantizer parameter, every SuperNet coefficient), `requires_grad` after *any* sequence of calls is
decided by the last `train_*` call alone (`train_nas_only`: is it a NAS parameter;
`train_net_only`: is it not; `train_net_and_nas`: yes) — and is the initial flag if there was none -/
theorem trainability_is_last_train_call (s : State) (ops : List Op) (i : Nat)
    (hp : isParamAt s.ts i = true) (hn : NoSetter s i) :
    rgAt (run s ops).ts i = ops.foldl (lastWriter ((nasIds s).contains i)) (rgAt s.ts i) :=
  run_rgAt_noSetter ops s i hp hn

/-- consequence: whatever preceded, a sequence ending in `train_net_only` leaves every network
weight trainable and every such NAS parameter not trainable -/
theorem after_train_net_only (s : State) (ops : List Op) (i : Nat)
    (hp : isParamAt s.ts i = true) (hn : NoSetter s i) :
    rgAt (run s (ops ++ [.netOnly])).ts i = !(nasIds s).contains i := by
  rw [trainability_is_last_train_call s _ i hp hn, List.foldl_append]
  rfl

/-- `backward()` raises exactly on the tree where `sample_alpha_none` kept the graph, when some
quantizer reached by the forward has sampling disabled while its coefficients still carry the
graph of an earlier, already back-propagated, sampling -/
theorem backward_raises_iff (s : State) :
    bwdError s = true ↔ s.detachOnNone = false ∧ ∃ j q, s.qs[j]? = some q ∧
      (reached s).contains j = true ∧ q.sampler = .none ∧ q.thetaGraph = true := bwdError_iff s

/-- **every sequence can be completed**: with `sample_alpha_none` detaching the coefficients it
keeps, `forward + backward(loss + cost)` raises after no sequence of calls — in particular not
after `forward+backward ; update_softmax_options(disable_sampling=True)` -/
theorem backward_never_raises (s : State) (hd : s.detachOnNone = true) (ops : List Op) :
    bwdError (run s ops) = false := by
  cases h : bwdError (run s ops) with
  | false => rfl
  | true =>
    have := ((backward_raises_iff _).mp h).1
    rw [run_detach, hd] at this
    cases this

/-! ## regression witnesses: the pinned tree -/

/-- a strided `PITConv1d` of the pinned tree: its frozen time-step mask was a *parameter* created
with `requires_grad = False` and reported by `named_nas_parameters` -/
def pinnedStrided : State :=
  { method := .pit, ts := [mkTensorPinned .alpha false, mkTensorPinned .beta true, mkTensor .weight false],
    layers := [{ refs := [0, 1], fm := some 0, tm := some 1 }], qs := [] }

/-- on the pinned tree `train_nas_only` thawed the frozen mask, which then received a gradient
(F7); with the frozen mask built as a buffer the same call leaves it alone -/
theorem pinned_train_nas_thaws_frozen :
    (rgAt (step pinnedStrided .nasOnly).ts 1 = true ∧
     (grads (step pinnedStrided .nasOnly)).getD 1 .none = .nonzero) ∧
    (let fixed : State := { pinnedStrided with ts := [mkTensor .alpha false, mkTensor .beta true,
                                                       mkTensor .weight false] }
     rgAt (step fixed .nasOnly).ts 1 = false ∧ (grads (step fixed .nasOnly)).getD 1 .nonzero = .none) := by
  decide

/-- on the pinned tree the sampler was re-chosen from the call's arguments: updating only the
temperature reverted a Gumbel quantizer to the plain softmax (F6); the repaired update keeps it -/
theorem pinned_partial_update_resets_sampler :
    let q : Qtz := { o := { temperature := 1, gumbel := true }, sampler := .gs, alphaT := 0 }
    (updQPinned q (some (1/2)) none none none).sampler = .sm ∧
    (updQ .mps q (some (1/2)) none none none).sampler = .gs := by
  decide

/-- one MPS quantizer (three alternatives) reached by its layer -/
def oneQuantizer (detach : Bool) : State :=
  { method := .mps, ts := [mkTensor (.qalpha 3) false, mkTensor .weight false],
    layers := [{ refs := [0], qs := [0] }],
    qs := [{ o := { temperature := 1 }, sampler := .sm, alphaT := 0 }], detachOnNone := detach }

/-- on the tree where `sample_alpha_none` kept the graph, the sequence
`forward+backward ; update_softmax_options(disable_sampling=True) ; forward+backward` of C11's own
alphabet could not be completed (`backward()` raised); with the detach it can, and the saved
coefficients simply receive no gradient -/
theorem pinned_backward_raises_after_disable :
    bwdError (run (oneQuantizer false) [.fwdbwd, .upd none none none (some true)]) = true ∧
    bwdError (run (oneQuantizer true) [.fwdbwd, .upd none none none (some true)]) = false ∧
    grads (run (oneQuantizer true) [.fwdbwd, .upd none none none (some true)]) = [.none, .present] := by
  decide

/-! ## the hypotheses are satisfiable -/

/-- a PIT net in the style of the harness's: strided conv (frozen beta/gamma), a features masker
shared by two layers, an output-tied layer (frozen alpha) -/
def demoPit : State :=
  { method := .pit,
    ts := [mkTensor .alpha false, mkTensor .beta true, mkTensor .gamma true, mkTensor .beta false,
           mkTensor .gamma false, mkTensor .alpha true, mkTensor .weight false, mkTensor .weight false],
    layers := [{ refs := [0, 1, 2], fm := some 0, tm := some 1, dm := some 2 },
               { refs := [0, 3, 4], fm := some 0, tm := some 3, dm := some 4 },
               { refs := [5], fm := some 5 }],
    qs := [] }

example : BuiltOK demoPit := by
  intro t ht
  simp only [demoPit, List.mem_cons, List.not_mem_nil, or_false] at ht
  rcases ht with rfl | rfl | rfl | rfl | rfl | rfl | rfl | rfl <;> exact ⟨_, _, _, rfl⟩

example : nasIds demoPit = [0, 3, 4] ∧ netIds demoPit = [6, 7] ∧ paramIds demoPit = [0, 3, 4, 6, 7] := by
  decide

example : ((run demoPit [.netOnly, .setFeatures true, .nasOnly, .setRf false, .fwdbwd]).ts.map (·.rg))
    = [true, false, false, false, true, false, false, false] := by decide

example : QtzOK { method := .mps, ts := [mkTensor (.qalpha 3) false], layers := [{ refs := [0], qs := [0] }],
                  qs := [{ o := { temperature := 1 }, sampler := .sm, alphaT := 0 }] } := by
  intro q hq
  simp only [List.mem_cons, List.not_mem_nil, or_false] at hq
  subst hq
  decide

end PlinioVerif.C11
