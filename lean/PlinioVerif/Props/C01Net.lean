import PlinioVerif.Lemmas.PIT.Sharing
import PlinioVerif.Props.C01
import Mathlib.Algebra.Group.Pi.Basic
/-!
# C01, network level — the exported network is the masked network restricted to alive channels

For **every** SSA program of the grammar (any length, any widths), every labelling accepted by
the certificate, every value of the channel-mask parameters, every abstract layer semantics with
zero-preserving channel maps and every input: each node of the network `export` builds equals
the same node of the PIT network (eval mode) restricted to its alive channels, and the dead
channels of the PIT network are exactly zero.  In particular the two networks' outputs agree
(the output layer is frozen: all its features are alive).

Hypotheses: `supported` (no residual sum / depthwise conv / non-feature concat consumes a
concat- or flatten-derived tensor — the complement is the pair of open known findings),
`wellShaped`.  Layers excluded from the search are part of the grammar (`fixed`, `fixedDw`): the
theorem shows they receive their full input width.  The carrier (what a convolution computes on a
channel) is abstract.
-/
namespace PlinioVerif.C01Net
open PlinioVerif.PIT

variable {V : Type} [AddCommMonoid V]

/-- **network-level export equivalence** -/
theorem net_export_equiv (σ : Sem V) (inp : ℕ → List V) (p : Prog) (l : List ℕ) (α : ℕ → List Rat)
    (hl : computeLabels p = some l) (hws : wellShaped p = true) (hsup : supported p = true)
    (hsem : ∀ n (hn : n < p.length), SemOK σ (aliveMasks p l α) inp (p[n], n)) :
    let ms := aliveMasks p l α
    let r := runBoth σ ms inp p.zipIdx
    ∀ n < p.length,
      gv r.2 n = compress (gm ms n) (gv r.1 n) ∧ DeadZero (gm ms n) (gv r.1 n) ∧
      (gm ms n).length = (gv r.1 n).length := by
  intro ms r n hn
  have hco := coherent_of_bookkeeping σ inp p l α hl hws hsup hsem
  have hinv := run_inv σ ms inp p p.length (le_refl _) hco
  have htake : p.zipIdx.take p.length = p.zipIdx := by
    apply List.take_of_length_le; simp
  rw [htake] at hinv
  obtain ⟨-, -, h⟩ := hinv
  obtain ⟨h1, h2, h3⟩ := h n hn
  exact ⟨h3, h2, h1⟩

/-- where every feature is alive (frozen maskers: the network's outputs) the exported node **is**
the PIT node -/
theorem net_export_eq_on_frozen (σ : Sem V) (inp : ℕ → List V) (p : Prog) (l : List ℕ)
    (α : ℕ → List Rat) (hl : computeLabels p = some l) (hws : wellShaped p = true)
    (hsup : supported p = true)
    (hsem : ∀ n (hn : n < p.length), SemOK σ (aliveMasks p l α) inp (p[n], n)) (n : ℕ) (hn : n < p.length)
    (hall : allTrue (gm (aliveMasks p l α) n)) :
    gv (runBoth σ (aliveMasks p l α) inp p.zipIdx).2 n
      = gv (runBoth σ (aliveMasks p l α) inp p.zipIdx).1 n := by
  obtain ⟨h1, -, h3⟩ := net_export_equiv σ inp p l α hl hws hsup hsem n hn
  rw [h1]; exact allTrue_compress _ _ hall h3

/-! ### non-vacuity: a residual network with a flatten and a linear head meets the hypotheses -/

def demo : Prog :=
  [.input 2, .conv 0 3 {}, .chan 1, .conv 2 3 {}, .chan 3, .add 2 4, .dw 5 {}, .flat 6 2,
   .lin 7 2 {}, .output 8]

example : (computeLabels demo).isSome = true ∧ wellShaped demo = true ∧ supported demo = true := by
  decide +kernel

/-- … and so does a network with a layer excluded from the search and a concat reaching it -/
def demoExcl : Prog :=
  [.input 2, .conv 0 3 {}, .chan 1, .conv 0 2 {}, .cat [2, 3], .chan 4, .fixed 5 4 {} false,
   .flat 6 2, .lin 7 2 {}, .output 8]

example : (computeLabels demoExcl).isSome = true ∧ wellShaped demoExcl = true ∧
    supported demoExcl = true := by decide +kernel

/-- **the exported network returns what the PIT network returns**: the tensor a network returns
reaches the output node unpruned, so no restriction is left at the output -/
theorem net_export_output_eq (σ : Sem V) (inp : ℕ → List V) (p : Prog) (l : List ℕ) (α : ℕ → List Rat)
    (hl : computeLabels p = some l) (hws : wellShaped p = true) (hsup : supported p = true)
    (hsem : ∀ n (hn : n < p.length), SemOK σ (aliveMasks p l α) inp (p[n], n)) (n s : ℕ) (hn : n < p.length)
    (hop : p[n] = .output s) :
    gv (runBoth σ (aliveMasks p l α) inp p.zipIdx).2 n
      = gv (runBoth σ (aliveMasks p l α) inp p.zipIdx).1 n := by
  have hok := labelsOK_of_compute p l hl
  have hsb := srcsBefore_of_wellShaped p hws
  refine net_export_eq_on_frozen σ inp p l α hl hws hsup hsem n hn ?_
  unfold gm
  rw [alive_eq p l α hsb n hn, hop]
  simp only [maskStep]
  exact fixed_input_allTrue p l α hok hws n s hn (by rw [hop]; simp [Op.inputs]) (Or.inr (by rw [hop]; rfl))

/-- a per-channel map placed right after a layer excluded from the search (a standalone
BatchNorm, say) is **unconstrained**: every channel it sees is alive, so it need not preserve zero -/
theorem map_after_excluded_layer_unconstrained (σ : Sem V) (inp : ℕ → List V) (p : Prog) (l : List ℕ)
    (α : ℕ → List Rat) (hws : wellShaped p = true) (n s s' c : ℕ) (a : LAttr) (i : Bool)
    (hn : n < p.length) (hs : s < p.length) (hop : p[n] = .chan s) (hops : p[s] = .fixed s' c a i) :
    SemOK σ (aliveMasks p l α) inp (p[n], n) := by
  have hsb := srcsBefore_of_wellShaped p hws
  unfold SemOK
  rw [hop]
  intro ch hch
  unfold gm at hch
  rw [alive_eq p l α hsb s hs, hops] at hch
  simp only [maskStep] at hch
  rw [List.getD_eq_getElem?_getD] at hch
  by_cases h : ch < c
  · simp [List.getElem?_replicate, h] at hch
  · simp [List.getElem?_replicate, h] at hch

/-! ### the zero-preservation hypothesis cannot be dropped

A per-channel map that does not preserve zero (a standalone BatchNorm on a *pruned* tensor, a
sigmoid, `x + 1`) turns the exact zeros of the pruned channels into non-zero values that the next
layer of the PIT network consumes, while `export` removes those channels: the statement of C01
restricts the grammar to zero-preserving ops for this reason. -/

def demoShift : Prog := [.input 1, .conv 0 2 {}, .chan 1, .lin 2 1 {}, .output 3]

def shiftSem : Sem Int :=
  { L := fun _ _ _ v => v, b := fun _ _ => 0, post := fun _ _ v => v, D := fun _ _ v => v,
    g := fun _ _ v => v + 1, g2 := fun _ u v => u + v, sp := fun _ _ v => v }

/-- witness: first layer pruned to its channel 1 (keep-alive), followed by `x ↦ x + 1` -/
theorem non_zero_preserving_map_unsound :
    supported demoShift = true ∧ wellShaped demoShift = true ∧
    (computeLabels demoShift).isSome = true ∧
    let ms := aliveMasks demoShift ((computeLabels demoShift).getD []) (fun g => if g = 1 then [0, 1] else [1])
    let r := runBoth shiftSem ms (fun _ => [5]) demoShift.zipIdx
    gv r.1 4 = [7] ∧ gv r.2 4 = [6] := by
  decide +kernel



/-! ### channels and taps together

The carrier of `net_export_equiv` is abstract; here it is instantiated with integer *signals*
(`ℤ → ℤ`, zero before the first sample: causal padding) and the two executable convolutions of
`Model/PIT/TimeMask.lean`: the PIT network applies, per (output, input) channel pair, the kernel
multiplied by its time mask (`maskedConvAt`); the exported network applies the kernel `export`
builds — surviving taps only, `kernel_size_opt`, `dilation_opt`, re-created left padding
(`exportedConvAt`).  With both prunings at once, every node of the exported network is the PIT
network's node restricted to its alive channels. -/

/-- time-mask parameters, seed kernel size / dilation and weights of every conv node -/
structure ConvParams where
  K : ℕ → ℕ
  d0 : ℕ → ℕ
  β : ℕ → ℕ → ℚ
  γ : ℕ → ℕ → ℚ
  w : ℕ → ℕ → ℕ → ℕ → ℤ      -- node, out channel, in channel, tap
  wd : ℕ → ℕ → ℕ → ℤ         -- depthwise: node, channel, tap

/-- the searched network: masked kernels -/
def pitSem (c : ConvParams) (base : Sem (ℤ → ℤ)) : Sem (ℤ → ℤ) :=
  { base with
    L := fun n co ci x τ => maskedConvAt (c.K n) (c.d0 n) (c.β n) (c.γ n) (c.w n co ci) x τ
    D := fun n ch x τ => maskedConvAt (c.K n) (c.d0 n) (c.β n) (c.γ n) (c.wd n ch) x τ }

/-- the exported network: pruned kernels with their own dilation and padding -/
def expSem (c : ConvParams) (base : Sem (ℤ → ℤ)) : Sem (ℤ → ℤ) :=
  { base with
    L := fun n co ci x τ => exportedConvAt (c.K n) (c.d0 n) (c.β n) (c.γ n) (c.w n co ci) x τ
    D := fun n ch x τ => exportedConvAt (c.K n) (c.d0 n) (c.β n) (c.γ n) (c.wd n ch) x τ }

theorem pitSem_eq_expSem (c : ConvParams) (base : Sem (ℤ → ℤ)) (hK : ∀ n, 0 < c.K n) :
    pitSem c base = expSem c base := by
  unfold pitSem expSem
  congr 1 <;> funext n a
  · funext ci x τ
    unfold maskedConvAt exportedConvAt
    exact C01.conv1d_masked_eq_exported (c.K n) (c.d0 n) (hK n) (c.β n) (c.γ n) (c.w n a ci) x τ
  · funext x τ
    unfold maskedConvAt exportedConvAt
    exact C01.conv1d_masked_eq_exported (c.K n) (c.d0 n) (hK n) (c.β n) (c.γ n) (c.wd n a) x τ

/-- a masked convolution maps the zero signal to the zero signal -/
theorem maskedConvAt_zero (K d0 : ℕ) (β γ : ℕ → ℚ) (w : ℕ → ℤ) :
    (fun τ => maskedConvAt K d0 β γ w (0 : ℤ → ℤ) τ) = 0 := by
  funext τ
  unfold maskedConvAt
  simp

/-- **C01 with channels and taps pruned together**: the exported network (pruned kernels applied
to the alive channels) is the searched network (masked kernels on all channels) restricted to its
alive channels, node by node -/
theorem net_export_equiv_conv1d (c : ConvParams) (base : Sem (ℤ → ℤ)) (hK : ∀ n, 0 < c.K n)
    (inp : ℕ → List (ℤ → ℤ)) (p : Prog) (l : List ℕ) (α : ℕ → List Rat)
    (hl : computeLabels p = some l) (hws : wellShaped p = true) (hsup : supported p = true)
    (hsem : ∀ n (hn : n < p.length), SemOK (pitSem c base) (aliveMasks p l α) inp (p[n], n)) :
    ∀ n < p.length,
      gv (runBoth (expSem c base) (aliveMasks p l α) inp p.zipIdx).2 n
        = compress (gm (aliveMasks p l α) n) (gv (runBoth (pitSem c base) (aliveMasks p l α) inp p.zipIdx).1 n) := by
  intro n hn
  rw [← pitSem_eq_expSem c base hK]
  exact (net_export_equiv (pitSem c base) inp p l α hl hws hsup hsem n hn).1

/-- the zero-preservation hypothesis of `SemOK` holds for the masked convolutions by construction -/
theorem pitSem_conv_zero (c : ConvParams) (base : Sem (ℤ → ℤ)) (n co ci : ℕ) :
    (pitSem c base).L n co ci 0 = 0 := maskedConvAt_zero _ _ _ _ _

end PlinioVerif.C01Net
