import PlinioVerif.Lemmas.PIT.TimeLink
/-!
# C01 — PIT export computes the same function as the searched (masked) network

Part 1: receptive-field and dilation pruning of a causally padded Conv1d, for every kernel size,
every initial dilation and every value of the mask parameters.  (Part 2, the network level, is in
`Props/C01Net.lean`.)  Statements are about the executable model `PlinioVerif.PIT`, tied to
`PITConv1d` / `PITConv1d.export` by `harness/props/c01.py`.
-/
namespace PlinioVerif.C01
open PlinioVerif.PIT

/-- every reachable binarised time mask is a suffix intersected with a power-of-two comb
anchored at the most recent tap — and `export`'s `kernel_size_opt`, `dilation_opt` and kept taps
are the closed forms of that shape -/
theorem time_mask_shape (K d0 : ℕ) (hK : 0 < K) (β γ : ℕ → ℚ) :
    ∃ a t, a < K ∧ t < gammaLen K ∧
      timeMask K β γ = (List.range K).map (fun j => decide (a ≤ j ∧ 2 ^ t ∣ (K - 1 - j))) ∧
      kernelSizeOpt K β γ = (K - 1 - a) / 2 ^ t + 1 ∧
      dilationOpt K d0 γ = 2 ^ t * d0 ∧
      keptTaps (timeMask K β γ) =
        (List.range ((K - 1 - a) / 2 ^ t + 1)).map
          (fun i => K - 1 - ((K - 1 - a) / 2 ^ t - i) * 2 ^ t) := by
  obtain ⟨a, t, h⟩ := shape_exists K d0 hK β γ
  exact ⟨a, t, h.a_lt, h.t_lt, h.mask, h.kopt, h.dopt, h.kept⟩

/-- kept timesteps line up: tap `i` of the exported kernel (size `kernel_size_opt`, dilation
`dilation_opt`, left padding `(kernel_size_opt-1)·dilation_opt`) reads the very input sample
that the `i`-th surviving tap of the masked kernel reads under the seed's causal padding -/
theorem export_reads_same_samples (K d0 : ℕ) (hK : 0 < K) (β γ : ℕ → ℚ) :
    exportAligned K d0 β γ = true := by
  obtain ⟨a, t, h⟩ := shape_exists K d0 hK β γ
  exact exportAligned_of_shape h

/-- **masked Conv1d = exported Conv1d**, output sample by output sample, over any semiring of
values (weights `w j`, input `x` extended by zero to the left, i.e. causally padded), for the
weights `weight[:, :, time_mask]` that `export` copies -/
theorem conv1d_masked_eq_exported {R : Type} [Semiring R] (K d0 : ℕ) (hK : 0 < K) (β γ : ℕ → ℚ)
    (w : ℕ → R) (x : ℤ → R) (τ : ℤ) :
    ((List.range K).map fun j =>
        (if (timeMask K β γ).getD j false then w j else 0) * x (τ - ((K - 1 - j) * d0 : ℕ))).sum
      = ((List.range (kernelSizeOpt K β γ)).map fun i =>
        w ((keptTaps (timeMask K β γ)).getD i 0) *
          x (τ - ((kernelSizeOpt K β γ - 1 - i) * dilationOpt K d0 γ : ℕ))).sum := by
  obtain ⟨a, t, h⟩ := shape_exists K d0 hK β γ
  exact conv_eq_of_shape h w x τ

/-- the same statement about the **executable** layer functions that `Drivers/PITTime.lean` runs
against the real `PITConv1d` and the real exported `Conv1d` on integer signals: every output sample
of every output channel, any number of input channels, any stride, any bias -/
theorem conv1d_layer_masked_eq_exported (K d0 : ℕ) (hK : 0 < K) (β γ : ℕ → ℚ) (cout : ℕ)
    (w : ℕ → ℕ → ℕ → ℤ) (b : ℕ → ℤ) (xs : List (List ℤ)) (s T : ℕ) :
    convLayer (maskedConvAt K d0 β γ) cout w b xs s T = convLayer (exportedConvAt K d0 β γ) cout w b xs s T := by
  unfold convLayer
  apply List.map_congr_left; intro co _
  apply List.map_congr_left; intro t _
  congr 2
  apply List.map_congr_left; intro ci _
  unfold maskedConvAt exportedConvAt
  exact conv1d_masked_eq_exported K d0 hK β γ (w co ci) (signal (xs.getD ci [])) _

/-- with every mask open the exported layer is the seed layer: all taps, same dilation -/
theorem open_masks_export_identity (K d0 : ℕ) (hK : 0 < K) :
    timeMask K (fun _ => 1) (fun _ => 1) = List.replicate K true ∧
    kernelSizeOpt K (fun _ => 1) (fun _ => 1) = K ∧ dilationOpt K d0 (fun _ => 1) = d0 := by
  obtain ⟨a, t, ha, ht, hm, hg⟩ := timeMask_shape K hK (fun _ => 1) (fun _ => 1)
  -- tap 0 is alive in the beta mask and every tap is alive in the gamma mask
  have hb0 : bin (thetaBeta K (fun _ => 1) 0) = true := by
    rw [bin_iff, thetaBeta_eq]
    unfold PITTime.thetaBeta PITTime.S PITTime.ka
    simp only [zero_add, Finset.range_one, Finset.sum_singleton, abs_one, ite_self]
    norm_num
  have hgall : ∀ j, bin (thetaGamma K (gammaLen K) (fun _ => 1) j) = true := by
    intro j
    rw [bin_iff, thetaGamma_eq]
    have h0 : (1:ℚ) ≤ PITTime.thetaGamma K (gammaLen K) (fun _ => (1:ℚ)) j := by
      unfold PITTime.thetaGamma
      have hmem : 0 ∈ Finset.range (gammaLen K) := Finset.mem_range.mpr (gammaLen_pos K)
      have hnn : ∀ i ∈ Finset.range (gammaLen K),
          (0:ℚ) ≤ (if 2 ^ i ∣ K - 1 - j then PITTime.ka (gammaLen K) (fun _ => (1:ℚ)) i else 0) := by
        intro i _; split
        · exact PITTime.ka_nonneg _ _ _
        · exact le_refl _
      have := Finset.single_le_sum hnn hmem
      simp only [pow_zero, one_dvd, if_true] at this
      have hk : PITTime.ka (gammaLen K) (fun _ => (1:ℚ)) 0 = 1 := by
        unfold PITTime.ka; split <;> simp
      rw [hk] at this; exact this
    linarith
  have hbmono : ∀ j, bin (thetaBeta K (fun _ => 1) j) = true := by
    intro j
    rw [bin_iff, thetaBeta_eq]
    have h0 := (bin_iff _).mp hb0
    rw [thetaBeta_eq] at h0
    have : PITTime.thetaBeta K (fun _ => (1:ℚ)) 0 ≤ PITTime.thetaBeta K (fun _ => (1:ℚ)) j := by
      unfold PITTime.thetaBeta; exact PITTime.S_mono K _ (by omega)
    linarith
  have hmask : timeMask K (fun _ => 1) (fun _ => 1) = List.replicate K true := by
    unfold timeMask
    have : ∀ j ∈ List.range K, (bin (thetaBeta K (fun _ => 1) j) &&
        bin (thetaGamma K (gammaLen K) (fun _ => 1) j)) = (fun _ => true) j := by
      intro j _; simp [hbmono j, hgall j]
    rw [List.map_congr_left this, List.map_const', List.length_range]
  refine ⟨hmask, ?_, ?_⟩
  · unfold kernelSizeOpt countTrue; rw [hmask]; simp
  · unfold dilationOpt gammaMask
    have : ∀ j ∈ List.range K, bin (thetaGamma K (gammaLen K) (fun _ => 1) j) = (fun _ => true) j := by
      intro j _; exact hgall j
    rw [List.map_congr_left this, List.map_const', List.length_range]
    have hl : ∀ n cur best, lzr (List.replicate n true) cur best = max cur best := by
      intro n; induction n with
      | zero => intro cur best; simp [lzr]
      | succ n ih => intro cur best; simp only [List.replicate_succ, lzr, ih]; omega
    rw [hl]; simp

/-! ### non-vacuity and the regression witness for the pinned tree -/

/-- K = 7, initial dilation 2, receptive field pruned to the last 5 taps, dilation mask at 2:
taps 2, 4, 6 survive; exported kernel 3, dilation 4, left padding 8 -/
example : timeMask 7 (ofList [0, 0, 1, 0, 0, 0, 0]) (ofList [0, 1, 1]) =
      [false, false, true, false, true, false, true] ∧
    kernelSizeOpt 7 (ofList [0, 0, 1, 0, 0, 0, 0]) (ofList [0, 1, 1]) = 3 ∧
    dilationOpt 7 2 (ofList [0, 1, 1]) = 4 ∧
    padOpt 7 2 (ofList [0, 0, 1, 0, 0, 0, 0]) (ofList [0, 1, 1]) = 8 := by decide +kernel

/-- pinned tree (comb anchored at tap 0): on a 4-tap kernel with the dilation mask at 2 the
exported layer does **not** read the samples the masked layer reads -/
theorem pinned_export_misaligned :
    exportAlignedPinned 4 1 (ofList [1, 1, 1, 1]) (ofList [0, 1]) = false := by decide +kernel

end PlinioVerif.C01
