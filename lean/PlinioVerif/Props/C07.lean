import PlinioVerif.Props.C01
import PlinioVerif.Props.C04
import PlinioVerif.Lemmas.PIT.TimeLink
import PlinioVerif.Lemmas.PIT.OpenSeed
import PlinioVerif.Props.C01Net
import Mathlib.Tactic.FieldSimp
/-!
# C07 — importing a model is behaviour-preserving and leaves the user model intact
-/
namespace PlinioVerif.C07
open PlinioVerif.PIT

/-- freshly imported maskers (all parameters 1) keep every output feature -/
theorem open_features_mask (C : ℕ) : featuresMask C (fun _ => 1) = List.replicate C true := by
  unfold featuresMask
  have : ∀ c ∈ List.range C, bin (thetaAlpha C (fun _ => 1) c) = (fun _ => true) c := by
    intro c _
    rw [bin_iff]; unfold thetaAlpha
    rw [ka_eq]; unfold PITTime.ka
    split <;> norm_num
  rw [List.map_congr_left this, List.map_const', List.length_range]

/-- … hence `export` right after import copies every index, in order -/
theorem keptIdx_all_true (n : ℕ) : keptIdx (List.replicate n true) = List.range n := by
  unfold keptIdx
  rw [List.length_replicate]
  apply List.filter_eq_self.mpr
  intro i hi
  simp only [List.mem_range] at hi
  simp [List.getD_eq_getElem?_getD, hi]

/-- … and every tap of a Conv1d with its original dilation (restated from C01) -/
theorem open_time_masks (K d0 : ℕ) (hK : 0 < K) :
    timeMask K (fun _ => 1) (fun _ => 1) = List.replicate K true ∧
    kernelSizeOpt K (fun _ => 1) (fun _ => 1) = K ∧ dilationOpt K d0 (fun _ => 1) = d0 :=
  C01.open_masks_export_identity K d0 hK

/-- BatchNorm kept as a sub-layer (fused): with an open mask the PIT layer computes `bn(conv(x))`,
the same as the seed's conv followed by its BatchNorm -/
theorem bn_fuse_eq {F : Type} [Field F] (y μ r γ β : F) :
    ((y - μ) * r * γ + β) * 1 = (y - μ) * r * γ + β := by ring

/-- BatchNorm folded into weight and bias (`remove_bn_inplace`, `fold=True`): for a pre-activation
`y = w·x + b` the folded layer `(w·rγ)·x + ((b-μ)·rγ + β)` equals `bn(y)`; `r` stands for
`rsqrt(var+eps)`.  A bias-free layer is the case `b = 0` (the code creates the bias). -/
theorem bn_fold_eq {F : Type} [Field F] (wx b μ r γ β : F) :
    (wx * (γ * r)) + ((b - μ) * r * γ + β) = ((wx + b) - μ) * r * γ + β := by ring

/-- the fold distributes over the sum a convolution/linear layer computes -/
theorem bn_fold_sum {F : Type} [Field F] (ws xs : List F) (s : F) :
    ((List.zipWith (fun w x => (w * s) * x) ws xs).sum) = (List.zipWith (fun w x => w * x) ws xs).sum * s := by
  induction ws generalizing xs with
  | nil => simp
  | cons w ws ih =>
    cases xs with
    | nil => simp
    | cons x xs => simp only [List.zipWith_cons_cons, List.sum_cons, ih]; ring

/-! ### network level -/

variable {V : Type} [AddCommMonoid V]

/-- **Importing preserves the function, and exporting at once returns it**: with every masker
open (all parameters 1, as right after import), every node of the PIT network (eval mode) and
every node of the network exported at once equal the same node of the seed network — for every
supported program of the grammar (residual sums, concatenations, flatten, depthwise, excluded
layers), every abstract layer semantics and every input.  The BatchNorm kept as a sub-layer is
the per-channel post-map; the folded variant is `bn_fold_eq`. -/
theorem import_preserves_function (σ : Sem V) (inp : ℕ → List V) (p : Prog) (l : List ℕ)
    (α : ℕ → List Rat) (hl : computeLabels p = some l) (hws : wellShaped p = true)
    (hsup : supported p = true) (hsem : ∀ n (hn : n < p.length), SemOK σ (aliveMasks p l α) inp (p[n], n))
    (hα : OpenAlpha p l α) :
    let ms := aliveMasks p l α
    (runBoth σ ms inp p.zipIdx).1 = runSeed σ inp p.zipIdx ∧
    ∀ n < p.length, gv (runBoth σ ms inp p.zipIdx).2 n = gv (runSeed σ inp p.zipIdx) n := by
  intro ms
  have hco := coherent_of_bookkeeping σ inp p l α hl hws hsup hsem
  have hall := aliveMasks_open p l α hws hα
  have hw := fun n hn => widthOK_of_bookkeeping p l α hl hws n hn
  have htake : p.zipIdx.take p.length = p.zipIdx := by apply List.take_of_length_le; simp
  have h1 := pit_open_eq_seed σ ms inp p hco hall hw p.length (le_refl _)
  rw [htake] at h1
  refine ⟨h1, fun n hn => ?_⟩
  rw [← h1]
  exact C01Net.net_export_eq_on_frozen σ inp p l α hl hws hsup hsem n hn (hall n hn)

/-- non-vacuity: long enough all-ones parameter vectors open every masker of any program -/
theorem openAlpha_ones (p : Prog) (l : List ℕ) :
    OpenAlpha p l (fun _ => List.replicate ((widths p).foldl max 0) 1) := by
  intro g grp hg c hc
  have hle : ∀ (ws : List ℕ) (i a : ℕ), ws.getD i 0 ≤ ws.foldl max a := by
    intro ws
    induction ws with
    | nil => intro i a; simp
    | cons w ws ih =>
      intro i a
      cases i with
      | zero =>
        simp only [List.getD_cons_zero, List.foldl_cons]
        have : ∀ (xs : List ℕ) (b : ℕ), b ≤ xs.foldl max b := by
          intro xs; induction xs with
          | nil => intro b; simp
          | cons x xs ihx => intro b; simp only [List.foldl_cons]; exact le_trans (le_max_left b x) (ihx _)
        exact le_trans (le_max_right a w) (this ws _)
      | succ i => simp only [List.getD_cons_succ, List.foldl_cons]; exact ih i _
  have hw : grp.width ≤ (widths p).foldl max 0 := by
    unfold groupOf at hg
    simp only at hg
    split at hg
    · cases hg
    · cases hg; exact hle _ _ _
  unfold ofList
  rw [List.getD_eq_getElem?_getD, List.getElem?_replicate]
  simp [show c < (widths p).foldl max 0 by omega]

end PlinioVerif.C07
