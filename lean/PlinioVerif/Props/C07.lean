import PlinioVerif.Props.C01
import PlinioVerif.Props.C04
import PlinioVerif.Lemmas.PIT.TimeLink
import Mathlib.Tactic.FieldSimp
/-!
# C07 — importing a model is behaviour-preserving and leaves the user model intact
-/
namespace PlinioVerif.C07
open PlinioVerif.PIT

/-- freshly imported maskers (all parameters 1) keep every output feature -/
theorem open_features_mask (C : ℕ) : featuresMask C (fun _ => 1) = List.replicate C true := by
  unfold featuresMask
  have : ∀ c ∈ List.range C, bin (thetaAlpha C (fun _ => 1) c) = (fun _ => true) c := by
    intro c _
    rw [bin_iff]; unfold thetaAlpha
    rw [ka_eq]; unfold PITTime.ka
    split <;> norm_num
  rw [List.map_congr_left this, List.map_const', List.length_range]

/-- … hence `export` right after import copies every index, in order -/
theorem keptIdx_all_true (n : ℕ) : keptIdx (List.replicate n true) = List.range n := by
  unfold keptIdx
  rw [List.length_replicate]
  apply List.filter_eq_self.mpr
  intro i hi
  simp only [List.mem_range] at hi
  simp [List.getD_eq_getElem?_getD, hi]

/-- … and every tap of a Conv1d with its original dilation (restated from C01) -/
theorem open_time_masks (K d0 : ℕ) (hK : 0 < K) :
    timeMask K (fun _ => 1) (fun _ => 1) = List.replicate K true ∧
    kernelSizeOpt K (fun _ => 1) (fun _ => 1) = K ∧ dilationOpt K d0 (fun _ => 1) = d0 :=
  C01.open_masks_export_identity K d0 hK

/-- BatchNorm kept as a sub-layer (fused): with an open mask the PIT layer computes `bn(conv(x))`,
the same as the seed's conv followed by its BatchNorm -/
theorem bn_fuse_eq {F : Type} [Field F] (y μ r γ β : F) :
    ((y - μ) * r * γ + β) * 1 = (y - μ) * r * γ + β := by ring

/-- BatchNorm folded into weight and bias (`remove_bn_inplace`, `fold=True`): for a pre-activation
`y = w·x + b` the folded layer `(w·rγ)·x + ((b-μ)·rγ + β)` equals `bn(y)`; `r` stands for
`rsqrt(var+eps)`.  A bias-free layer is the case `b = 0` (the code creates the bias). -/
theorem bn_fold_eq {F : Type} [Field F] (wx b μ r γ β : F) :
    (wx * (γ * r)) + ((b - μ) * r * γ + β) = ((wx + b) - μ) * r * γ + β := by ring

/-- the fold distributes over the sum a convolution/linear layer computes -/
theorem bn_fold_sum {F : Type} [Field F] (ws xs : List F) (s : F) :
    ((List.zipWith (fun w x => (w * s) * x) ws xs).sum) = (List.zipWith (fun w x => w * x) ws xs).sum * s := by
  induction ws generalizing xs with
  | nil => simp
  | cons w ws ih =>
    cases xs with
    | nil => simp
    | cons x xs => simp only [List.zipWith_cons_cons, List.sum_cons, ih]; ring

end PlinioVerif.C07
