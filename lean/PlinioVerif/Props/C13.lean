import PlinioVerif.Lemmas.Quant
/-!
# C13 — quantizers emit values that fit their declared bit-width and scale

Property theorems only.  The models (`Model/Quant.lean`) compute over ℚ what `MinMaxWeight`,
`PACTAct`, `QuantizerBias` and `DummyQuantizer` compute in float32 (float rounding is modelled,
not verified; the models are tied to the code by `harness/props/c13.py`).

All statements hold for **every** bit-width `p`, every channel `w` (any length, any rationals),
every clipping value `clip > 0` and every stabiliser `eps ≥ 0` (the code uses `eps = 1/1000`).
-/
namespace PlinioVerif.C13
open PlinioVerif.Quant

/-! ## `torch.round` (round half to even) -/

/-- rounding moves a value by at most half a unit -/
theorem round_close (x : ℚ) : |x - (rne x : ℚ)| ≤ 1 / 2 := rne_close x

/-- rounding is monotone non-decreasing -/
theorem round_mono : Monotone rne := rne_mono

/-- integers are fixed points of rounding -/
theorem round_int (n : ℤ) : rne (n : ℚ) = n := rne_intCast n

/-- exact ties go to the even neighbour (`round(2.5) = 2`, `round(3.5) = 4`) -/
theorem round_tie_to_even (n : ℤ) :
    (n % 2 = 0 → rne ((n : ℚ) + 1 / 2) = n) ∧ (n % 2 = 1 → rne ((n : ℚ) + 1 / 2) = n + 1) :=
  ⟨rne_half_even n, rne_half_odd n⟩

/-! ## weight quantizer (`MinMaxWeight`, symmetric, per output channel) -/

/-- **range**: every weight of the channel is mapped to an integer of the signed `p`-bit range
`[-2^(p-1), 2^(p-1)-1]` -/
theorem weight_level_range {p : ℕ} (hp : 1 ≤ p) {w : List ℚ} {x : ℚ} (hx : x ∈ w) :
    -(2 : ℤ) ^ (p - 1) ≤ mmLevel p w x ∧ mmLevel p w x ≤ (2 : ℤ) ^ (p - 1) - 1 := by
  rw [mmLevel_eq hp]
  refine ⟨le_min ?_ ?_, min_le_right _ _⟩
  · apply le_rne_of_le
    have h := abs_le.mp (abs_div_step_le hp hx)
    rw [nSteps_succ hp] at h
    push_cast
    linarith [h.1]
  · have : (1 : ℤ) ≤ (2 : ℤ) ^ (p - 1) := one_le_pow₀ (by norm_num)
    omega

/-- the upper bound holds for *any* input (the code clips from above) -/
theorem weight_level_le_top {p : ℕ} (hp : 1 ≤ p) (w : List ℚ) (x : ℚ) :
    mmLevel p w x ≤ (2 : ℤ) ^ (p - 1) - 1 := by
  rw [mmLevel_eq hp]; exact min_le_right _ _

/-- **0 bit**: all zeros, and a zero scale -/
theorem weight_zero_bits (w : List ℚ) (x : ℚ) :
    mmLevel 0 w x = 0 ∧ mmFq 0 w x = 0 ∧ mmScale 0 w = 0 := by
  simp [mmLevel, mmFq, mmScale]

/-- **monotone**: the integer output is non-decreasing in the input -/
theorem weight_level_mono (p : ℕ) (w : List ℚ) : Monotone (mmLevel p w) := by
  intro x y h
  rcases Nat.eq_zero_or_pos p with rfl | hp
  · simp [mmLevel]
  · rw [mmLevel_eq hp, mmLevel_eq hp]
    refine min_le_min (rne_mono ?_) le_rfl
    exact div_le_div_of_nonneg_right h (mmStep_pos hp w).le

/-- **fake-quantized = integer × reported scale** (also at 0 bit: `0 = 0·0`) -/
theorem weight_fq_eq_level_mul_scale (p : ℕ) (w : List ℚ) (x : ℚ) :
    mmFq p w x = (mmLevel p w x : ℚ) * mmScale p w := by
  unfold mmFq mmScale
  split_ifs with h
  · subst h; simp [mmLevel]
  · rfl

/-- the fake-quantized weight is monotone too -/
theorem weight_fq_mono (p : ℕ) (w : List ℚ) : Monotone (mmFq p w) := by
  intro x y h
  rcases Nat.eq_zero_or_pos p with rfl | hp
  · simp [mmFq]
  · unfold mmFq
    rw [if_neg (by omega), if_neg (by omega)]
    have hl : (mmLevel p w x : ℚ) ≤ (mmLevel p w y : ℚ) := by exact_mod_cast weight_level_mono p w h
    exact mul_le_mul_of_nonneg_right hl (mmStep_pos hp w).le

/-- the reported scale is positive (also for an all-zero channel, whose range is replaced by 1) -/
theorem weight_scale_pos {p : ℕ} (hp : 1 ≤ p) (w : List ℚ) : 0 < mmScale p w := by
  unfold mmScale
  rw [if_neg (by omega)]
  exact mmStep_pos hp w

/-- the reported scale is `2·max|w| / (2^p - 1)`, or `1 / (2^p - 1)` for an all-zero channel -/
theorem weight_scale_eq {p : ℕ} (hp : 1 ≤ p) (w : List ℚ) :
    mmScale p w = (if chMax w = 0 then 1 else 2 * chMax w) / ((2 : ℚ) ^ p - 1) := by
  unfold mmScale mmStep
  rw [if_neg (by omega), mmRange_eq, nSteps_eq]

/-- `chMax` is the largest absolute value of the channel -/
theorem chMax_is_max (w : List ℚ) :
    (∀ x ∈ w, |x| ≤ chMax w) ∧ (chMax w = 0 ∨ ∃ x ∈ w, chMax w = |x|) :=
  ⟨fun _ hx => abs_le_chMax hx, chMax_attained w⟩

/-- the distance between the integer output and `x / scale` is at most one half -/
theorem weight_level_close {p : ℕ} (hp : 1 ≤ p) {w : List ℚ} {x : ℚ} (hx : x ∈ w) :
    |(mmLevel p w x : ℚ) - x / mmStep p w| ≤ 1 / 2 := by
  rw [mmLevel_eq hp]
  have hq := abs_le.mp (abs_div_step_le hp hx)
  rw [nSteps_succ hp] at hq
  have hc := abs_le.mp (rne_close (x / mmStep p w))
  rcases le_total (rne (x / mmStep p w)) ((2 : ℤ) ^ (p - 1) - 1) with h | h
  · rw [min_eq_left h, abs_le]; constructor <;> linarith [hc.1, hc.2]
  · rw [min_eq_right h, abs_le]
    have h' : (((2 : ℤ) ^ (p - 1) - 1 : ℤ) : ℚ) ≤ (rne (x / mmStep p w) : ℚ) := Int.cast_le.mpr h
    have hr := rne_le (x / mmStep p w)
    push_cast at h' ⊢
    constructor <;> linarith [hq.1, hq.2, hc.1, hc.2]

/-- **error**: inside the channel's range the quantization error is at most half a step … -/
theorem weight_error_le_half_step {p : ℕ} (hp : 1 ≤ p) {w : List ℚ} {x : ℚ} (hx : x ∈ w) :
    |mmFq p w x - x| ≤ mmScale p w / 2 := by
  have hs := mmStep_pos hp w
  have hne : p ≠ 0 := by omega
  unfold mmFq mmScale
  rw [if_neg hne, if_neg hne]
  have hx' : x = x / mmStep p w * mmStep p w := by field_simp
  have : (mmLevel p w x : ℚ) * mmStep p w - x
      = ((mmLevel p w x : ℚ) - x / mmStep p w) * mmStep p w := by
    rw [sub_mul, ← hx']
  rw [this, abs_mul, abs_of_pos hs]
  have := weight_level_close hp hx
  nlinarith

/-- … hence **below one step** -/
theorem weight_error_lt_step {p : ℕ} (hp : 1 ≤ p) {w : List ℚ} {x : ℚ} (hx : x ∈ w) :
    |mmFq p w x - x| < mmScale p w := by
  have h1 := weight_error_le_half_step hp hx
  have h2 := weight_scale_pos hp w
  linarith

/-- a zero weight is mapped to zero, whatever the rest of the channel -/
theorem weight_zero_to_zero (p : ℕ) (w : List ℚ) : mmLevel p w 0 = 0 := by
  rcases Nat.eq_zero_or_pos p with rfl | hp
  · simp [mmLevel]
  · rw [mmLevel_eq hp, zero_div, rne_zero]
    have : (1 : ℤ) ≤ (2 : ℤ) ^ (p - 1) := one_le_pow₀ (by norm_num)
    exact min_eq_left (by omega)

/-- the range is tight: the largest-magnitude weight reaches `2^(p-1)-1` when positive and
`-2^(p-1)` when negative (`p ≥ 2`; the tie at `±(2^p-1)/2` goes to the even neighbour and the
positive side is clipped) -/
theorem weight_extremes {p : ℕ} (hp : 2 ≤ p) {w : List ℚ} (hm : chMax w ≠ 0) :
    mmLevel p w (chMax w) = (2 : ℤ) ^ (p - 1) - 1 ∧ mmLevel p w (-chMax w) = -(2 : ℤ) ^ (p - 1) := by
  have hp1 : 1 ≤ p := by omega
  have hn := nSteps_pos hp1
  have hstep : mmStep p w = 2 * chMax w / nSteps p := by
    unfold mmStep; rw [mmRange_eq, if_neg hm]
  have hq : chMax w / mmStep p w = nSteps p / 2 := by
    rw [hstep]; field_simp
  obtain ⟨k, rfl⟩ : ∃ k, p = k + 2 := ⟨p - 2, by omega⟩
  have hk : k + 2 - 1 = k + 1 := by omega
  have heven : ((2 : ℤ) ^ (k + 1)) % 2 = 0 := by rw [pow_succ]; omega
  have hpos : (1 : ℤ) ≤ (2 : ℤ) ^ (k + 1) := one_le_pow₀ (by norm_num)
  rw [mmLevel_eq hp1, mmLevel_eq hp1, neg_div, hq, nSteps_succ hp1, hk]
  constructor
  · have : (2 * (2 : ℚ) ^ (k + 1) - 1) / 2 = (((2 : ℤ) ^ (k + 1) - 1 : ℤ) : ℚ) + 1 / 2 := by
      push_cast; ring
    rw [this, rne_half_odd _ (by omega)]
    exact min_eq_right (by omega)
  · have : -((2 * (2 : ℚ) ^ (k + 1) - 1) / 2) = ((-(2 : ℤ) ^ (k + 1) : ℤ) : ℚ) + 1 / 2 := by
      push_cast; ring
    rw [this, rne_half_even _ (by omega)]
    exact min_eq_left (by omega)

/-! ## activation quantizer (`PACTAct`) -/

/-- **range**: the integer output lies in `[0, 2^p - 1]` -/
theorem act_level_range {eps clip : ℚ} (he : 0 ≤ eps) (hc : 0 < clip) (p : ℕ) (x : ℚ) :
    0 ≤ pactLevelE eps p clip x ∧ pactLevelE eps p clip x ≤ (2 : ℤ) ^ p - 1 := by
  have hs := pactSf_nonneg he hc p
  have hm := pactClamp_nonneg hc x
  have hm2 := pactClamp_le clip x
  unfold pactLevelE
  rw [floor_eq]
  constructor
  · exact Int.floor_nonneg.mpr (mul_nonneg hs hm)
  · rw [Int.floor_le_iff]
    have h1 : pactSf eps p clip * pactClamp clip x ≤ pactSf eps p clip * clip :=
      mul_le_mul_of_nonneg_left hm2 hs
    have h2 := pactSf_mul_clip_le he hc p
    rw [nSteps_eq] at h2
    push_cast
    linarith

/-- **everything at or below zero is mapped to zero** -/
theorem act_nonpos_to_zero {eps clip : ℚ} (hc : 0 < clip) (p : ℕ) {x : ℚ} (hx : x ≤ 0) :
    pactLevelE eps p clip x = 0 := by
  unfold pactLevelE
  rw [pactClamp_of_nonpos hc hx, mul_zero, floor_eq, Int.floor_zero]

/-- **everything at or above the clipping value is mapped to one common top level** -/
theorem act_ge_clip_common_top {eps clip : ℚ} (hc : 0 < clip) (p : ℕ) {x : ℚ} (hx : clip ≤ x) :
    pactLevelE eps p clip x = pactTopE eps p clip := by
  unfold pactLevelE pactTopE
  rw [pactClamp_of_ge hc hx]

/-- with a positive stabiliser the common top level is `2^p - 2` (not `2^p - 1`) as soon as the
clipping value is not comparable with the stabiliser: `(2^p - 2)·eps ≤ clip` -/
theorem act_top_value {eps clip : ℚ} (he : 0 < eps) (hc : 0 < clip) {p : ℕ} (hp : 1 ≤ p)
    (h : ((2 : ℚ) ^ p - 2) * eps ≤ clip) : pactTopE eps p clip = (2 : ℤ) ^ p - 2 := by
  unfold pactTopE pactSf
  rw [floor_eq, Int.floor_eq_iff, nSteps_eq]
  have hd : 0 < clip + eps := by linarith
  have h2 : (2 : ℚ) ^ 1 ≤ (2 : ℚ) ^ p := pow_le_pow_right₀ (by norm_num) hp
  push_cast
  constructor
  · rw [div_mul_eq_mul_div, le_div_iff₀ hd]; nlinarith
  · rw [div_mul_eq_mul_div, div_lt_iff₀ hd]; nlinarith

/-- without stabiliser the top level would be `2^p - 1` -/
theorem act_top_value_no_stab {clip : ℚ} (hc : 0 < clip) (p : ℕ) :
    pactTopE 0 p clip = (2 : ℤ) ^ p - 1 := by
  unfold pactTopE pactSf
  rw [floor_eq, add_zero, div_mul_cancel₀ _ hc.ne', nSteps_eq]
  have : (2 : ℚ) ^ p - 1 = (((2 : ℤ) ^ p - 1 : ℤ) : ℚ) := by push_cast; rfl
  rw [this, Int.floor_intCast]

/-- **monotone** -/
theorem act_level_mono {eps clip : ℚ} (he : 0 ≤ eps) (hc : 0 < clip) (p : ℕ) :
    Monotone (pactLevelE eps p clip) := by
  intro x y h
  unfold pactLevelE
  rw [floor_eq, floor_eq]
  exact Int.floor_mono (mul_le_mul_of_nonneg_left (pactClamp_mono clip h) (pactSf_nonneg he hc p))

/-- the fake-quantized activation is monotone too -/
theorem act_fq_mono {eps clip : ℚ} (he : 0 ≤ eps) (hc : 0 < clip) (p : ℕ) :
    Monotone (pactFqE eps p clip) := by
  intro x y h
  unfold pactFqE
  have hl : (pactLevelE eps p clip x : ℚ) ≤ (pactLevelE eps p clip y : ℚ) := by
    exact_mod_cast act_level_mono he hc p h
  exact div_le_div_of_nonneg_right hl (pactSf_nonneg he hc p)

/-- the fake-quantized output is the integer output times the step actually used,
`(clip + eps) / (2^p - 1)` -/
theorem act_fq_eq_level_mul_step {eps clip : ℚ} (he : 0 ≤ eps) (hc : 0 < clip) {p : ℕ} (hp : 1 ≤ p)
    (x : ℚ) : pactFqE eps p clip x = (pactLevelE eps p clip x : ℚ) * pactStepE eps p clip := by
  unfold pactFqE pactStepE pactSf
  have hn := nSteps_pos hp
  have hd : 0 < clip + eps := by linarith
  field_simp

/-- **fake-quantized = integer × reported scale, up to the stabiliser**: the exact identity
`fq - n·scale = n·eps/(2^p - 1)` (the reported scale is `clip/(2^p-1)`, the step used is
`(clip+eps)/(2^p-1)`) -/
theorem act_fq_identity {eps clip : ℚ} (he : 0 ≤ eps) (hc : 0 < clip) {p : ℕ} (hp : 1 ≤ p) (x : ℚ) :
    pactFqE eps p clip x - (pactLevelE eps p clip x : ℚ) * pactScale p clip
      = (pactLevelE eps p clip x : ℚ) * eps / ((2 : ℚ) ^ p - 1) := by
  rw [act_fq_eq_level_mul_step he hc hp]
  unfold pactStepE pactScale
  rw [nSteps_eq]
  have hn := nSteps_pos hp
  rw [nSteps_eq] at hn
  field_simp
  ring

/-- literal equality `fq = n·scale` holds exactly when there is no stabiliser -/
theorem act_fq_eq_level_mul_scale_no_stab {clip : ℚ} (hc : 0 < clip) {p : ℕ} (hp : 1 ≤ p) (x : ℚ) :
    pactFqE 0 p clip x = (pactLevelE 0 p clip x : ℚ) * pactScale p clip := by
  have := act_fq_identity (le_refl 0) hc hp x
  simp at this
  linarith

/-- **PACT truncates**: for a non-negative input the output never exceeds the input -/
theorem act_truncates {eps clip : ℚ} (he : 0 ≤ eps) (hc : 0 < clip) {p : ℕ} (hp : 1 ≤ p) {x : ℚ}
    (hx : 0 ≤ x) : pactFqE eps p clip x ≤ x := by
  have hs := pactSf_pos he hc hp
  unfold pactFqE pactLevelE
  rw [floor_eq, div_le_iff₀ hs]
  have h1 := Int.floor_le (pactSf eps p clip * pactClamp clip x)
  have h2 : pactClamp clip x ≤ x := by
    rw [pactClamp_eq, max_eq_left hx]; exact min_le_left _ _
  nlinarith

/-- the fake-quantized output is never negative and never above the clipping value -/
theorem act_fq_range {eps clip : ℚ} (he : 0 ≤ eps) (hc : 0 < clip) {p : ℕ} (hp : 1 ≤ p) (x : ℚ) :
    0 ≤ pactFqE eps p clip x ∧ pactFqE eps p clip x ≤ clip := by
  have hs := pactSf_pos he hc hp
  unfold pactFqE
  constructor
  · have hl : (0 : ℚ) ≤ (pactLevelE eps p clip x : ℚ) := by
      exact_mod_cast (act_level_range he hc p x).1
    exact div_nonneg hl hs.le
  · unfold pactLevelE
    rw [floor_eq, div_le_iff₀ hs]
    have h1 := Int.floor_le (pactSf eps p clip * pactClamp clip x)
    have h2 := pactClamp_le clip x
    nlinarith

/-- **error below one step inside the clipping range**, and one-sided (truncation) -/
theorem act_error_lt_step {eps clip : ℚ} (he : 0 ≤ eps) (hc : 0 < clip) {p : ℕ} (hp : 1 ≤ p)
    {x : ℚ} (h0 : 0 ≤ x) (h1 : x ≤ clip) :
    0 ≤ x - pactFqE eps p clip x ∧ x - pactFqE eps p clip x < pactStepE eps p clip := by
  have hs := pactSf_pos he hc hp
  refine ⟨by linarith [act_truncates he hc hp h0], ?_⟩
  have hstep : pactStepE eps p clip = 1 / pactSf eps p clip := by
    unfold pactStepE pactSf; rw [one_div_div]
  rw [hstep]
  unfold pactFqE pactLevelE
  rw [floor_eq, pactClamp_of_mem h0 h1]
  have h2 := Int.lt_floor_add_one (pactSf eps p clip * x)
  rw [sub_lt_iff_lt_add, ← add_div, lt_div_iff₀ hs]
  linarith

/-- the stabiliser of the code is a legitimate `eps` -/
theorem stab_pos : 0 < stab := by unfold stab; norm_num

/-- the code's quantizer (`eps = 1e-3`): range, zero below zero, common top, monotone -/
theorem act_code_summary {clip : ℚ} (hc : 0 < clip) (p : ℕ) :
    (∀ x, 0 ≤ pactLevel p clip x ∧ pactLevel p clip x ≤ (2 : ℤ) ^ p - 1) ∧
    (∀ x, x ≤ 0 → pactLevel p clip x = 0) ∧
    (∀ x, clip ≤ x → pactLevel p clip x = pactTop p clip) ∧
    Monotone (pactLevel p clip) :=
  ⟨fun x => act_level_range stab_pos.le hc p x,
   fun _ hx => act_nonpos_to_zero hc p hx,
   fun _ hx => act_ge_clip_common_top hc p hx,
   act_level_mono stab_pos.le hc p⟩

/-! ## bias quantizer (`QuantizerBias`) -/

/-- **the output is an integer multiple of (input scale × weight scale)** -/
theorem bias_fq_eq_level_mul_scale (b sa sw : ℚ) :
    biasFq b sa sw = (biasLevel b sa sw : ℚ) * (sa * sw) := by
  unfold biasFq; ring

/-- a scale that `isclose` treats as zero (`|s| ≤ 1e-8`) gives level 0 -/
theorem bias_tiny_scale (b : ℚ) {sa sw : ℚ} (h : |sa * sw| ≤ biasAtol) :
    biasLevel b sa sw = 0 ∧ biasFq b sa sw = 0 := by
  have h' : qabs (sa * sw) ≤ biasAtol := by rw [qabs_eq]; exact h
  have hl : biasLive (sa * sw) = false := by unfold biasLive; rw [decide_eq_true h']; rfl
  have : biasLevel b sa sw = 0 := by
    unfold biasLevel
    simp only [hl]
    exact if_neg Bool.false_ne_true
  exact ⟨this, by unfold biasFq; rw [this]; simp⟩

/-- **zero (not NaN, not infinity) where the scale is zero** (0-bit weights) -/
theorem bias_zero_scale (b : ℚ) {sa sw : ℚ} (h : sa * sw = 0) :
    biasLevel b sa sw = 0 ∧ biasFq b sa sw = 0 := by
  apply bias_tiny_scale
  rw [h]; unfold biasAtol; norm_num

/-- **monotone** in the bias for a non-negative scale -/
theorem bias_level_mono {sa sw : ℚ} (h : 0 ≤ sa * sw) : Monotone (fun b => biasLevel b sa sw) := by
  intro b b' hb
  unfold biasLevel
  simp only
  split_ifs
  · exact rne_mono (div_le_div_of_nonneg_right hb h)
  · exact le_rfl

/-- the fake-quantized bias is monotone too -/
theorem bias_fq_mono {sa sw : ℚ} (h : 0 ≤ sa * sw) : Monotone (fun b => biasFq b sa sw) := by
  intro b b' hb
  unfold biasFq
  have hl : (biasLevel b sa sw : ℚ) ≤ (biasLevel b' sa sw : ℚ) := by exact_mod_cast bias_level_mono h hb
  exact mul_le_mul_of_nonneg_left hl h

/-- the integer output is within half a unit of `b / (s_a·s_w)` where the scale is live … -/
theorem bias_level_close (b : ℚ) {sa sw : ℚ} (h : biasAtol < |sa * sw|) :
    |b / (sa * sw) - (biasLevel b sa sw : ℚ)| ≤ 1 / 2 := by
  have h' : ¬ qabs (sa * sw) ≤ biasAtol := by rw [qabs_eq]; exact not_le.mpr h
  have hl : biasLive (sa * sw) = true := by unfold biasLive; rw [decide_eq_false h']; rfl
  have : biasLevel b sa sw = rne (b / (sa * sw)) := by
    unfold biasLevel
    simp only [hl]
    exact if_pos trivial
  rw [this]; exact rne_close _

/-- … so the **error is at most half a step** of the bias scale -/
theorem bias_error_le_half_scale (b : ℚ) {sa sw : ℚ} (h : biasAtol < sa * sw) :
    |biasFq b sa sw - b| ≤ sa * sw / 2 := by
  have hpos : 0 < sa * sw := lt_trans (by unfold biasAtol; norm_num) h
  have hc := bias_level_close b (by rwa [abs_of_pos hpos])
  have : biasFq b sa sw - b = -((b / (sa * sw) - (biasLevel b sa sw : ℚ)) * (sa * sw)) := by
    unfold biasFq; rw [sub_mul, div_mul_cancel₀ _ hpos.ne']; ring
  rw [this, abs_neg, abs_mul, abs_of_pos hpos]
  nlinarith

/-! ## dummy quantizer -/

/-- identity with scale 1: output = input × reported scale -/
theorem dummy_identity (x : ℚ) : dummyFq x = x * dummyScale := by
  unfold dummyFq dummyScale; ring

/-! ## the hypotheses are satisfiable; concrete values -/

example : (1 : ℚ) / 2 ∈ [(1 : ℚ), -1, 1 / 2] := by simp
example : mmLevels 8 [1, -1, 1 / 2, 0] = [127, -128, 64, 0] := by decide +kernel
example : mmLevels 2 [3, -3, 1, -1] = [1, -2, 0, 0] := by decide +kernel
example : pactLevel 8 6 7 = 254 ∧ pactTop 8 6 = 254 ∧ pactLevel 8 6 (-1) = 0 := by decide +kernel
example : ((2 : ℚ) ^ 8 - 2) * stab ≤ 6 := by unfold stab; norm_num
example : pactTop 8 (1 / 20) = 250 := by decide +kernel
example : biasLevel 3 (1 / 2) 0 = 0 ∧ biasLevel 3 (1 / 2) (1 / 4) = 24 := by decide +kernel

end PlinioVerif.C13
