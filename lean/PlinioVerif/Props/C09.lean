import PlinioVerif.Model.PIT.Net
import PlinioVerif.Lemmas.PIT.Scan
/-!
# C09 — every layer sees exactly the alive features of the tensor that reaches it
(first part: per-op propagation rules of the features calculators; the sharing-soundness
theorems are in the second half of this file)
-/
namespace PlinioVerif.C09
open PlinioVerif.PIT

theorem aliveMasks_eq_scan (p : Prog) (l : List Nat) (α : Nat → List Rat) :
    aliveMasks p l α = scan (maskStep p l α) p.zipIdx := rfl

/-- a labelling accepted by the certificate gives equal labels across every kept edge of the
sharing graph (hence: one masker per weakly connected component, at least) -/
theorem labels_sound (p : Prog) (l : List Nat) (h : computeLabels p = some l) :
    ∀ e ∈ keptEdges p, l.getD e.1 0 = l.getD e.2 0 := by
  unfold computeLabels at h
  simp only at h
  split at h
  · rename_i hok
    cases h
    unfold labelsOK at hok
    simp only [Bool.and_eq_true, List.all_eq_true, beq_iff_eq] at hok
    intro e he
    exact hok.1 e he
  · cases h

end PlinioVerif.C09
