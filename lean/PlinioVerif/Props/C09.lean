import PlinioVerif.Lemmas.PIT.Sharing
import PlinioVerif.Props.C08
import PlinioVerif.Lemmas.PIT.Labels
import PlinioVerif.Model.PIT.FeatCalc
/-!
# C09 — every layer sees exactly the alive features of the tensor that reaches it

Statements about the executable bookkeeping model `PlinioVerif.PIT` (tied to the real PIT objects
by `harness/props/c09.py`): `aliveMasks p l α` is what every features calculator reports,
`inMask` what `input_features_calculator.features_mask` of a layer is, `exportPlan` what export
copies.  They hold for **every** program (any DAG of the grammar, any length and widths) and every
mask assignment.
-/
namespace PlinioVerif.C09
open PlinioVerif.PIT

/-- a labelling accepted by the certificate gives equal labels across every kept edge of the
sharing graph (one masker per weakly connected component) -/
theorem labels_sound (p : Prog) (l : List ℕ) (h : computeLabels p = some l) :
    ∀ e ∈ keptEdges p, l.getD e.1 0 = l.getD e.2 0 := by
  have hok := labelsOK_of_compute p l h
  unfold labelsOK at hok
  simp only [Bool.and_eq_true, List.all_eq_true, beq_iff_eq] at hok
  exact fun e he => hok.1.1 e he

variable (p : Prog) (l : List ℕ) (α : ℕ → List Rat)

/-- through element-wise ops, pooling, padding (and the output node) a consumer sees the alive
features of the producer, position by position -/
theorem elementwise_propagates (hws : wellShaped p = true) (n s : ℕ) (hn : n < p.length)
    (hop : p[n] = .chan s ∨ p[n] = .output s) :
    (aliveMasks p l α).getD n [] = (aliveMasks p l α).getD s [] := by
  rw [alive_eq p l α (srcsBefore_of_wellShaped p hws) n hn]
  rcases hop with h | h <;> rw [h] <;> rfl

theorem countT_append (a b : List Bool) : countT (a ++ b) = countT a + countT b := by
  unfold countT; rw [List.filter_append, List.length_append]

theorem countT_flatten (ms : List (List Bool)) : countT ms.flatten = (ms.map countT).sum := by
  induction ms with
  | nil => rfl
  | cons m ms ih => rw [List.flatten_cons, countT_append, ih]; rfl

/-- across channel concatenation the alive features are the concatenation of the operands' alive
features — whatever their origin (searchable layers, fixed layers, network inputs) — and their
number is the sum -/
theorem concat_is_concatenation (hws : wellShaped p = true) (n : ℕ) (ss : List ℕ) (hn : n < p.length)
    (hop : p[n] = .cat ss) :
    (aliveMasks p l α).getD n [] = (ss.map ((aliveMasks p l α).getD · [])).flatten ∧
    countT ((aliveMasks p l α).getD n []) = (ss.map fun s => countT ((aliveMasks p l α).getD s [])).sum := by
  have h : (aliveMasks p l α).getD n [] = (ss.map ((aliveMasks p l α).getD · [])).flatten := by
    rw [alive_eq p l α (srcsBefore_of_wellShaped p hws) n hn, hop]; rfl
  refine ⟨h, ?_⟩
  rw [h, countT_flatten, List.map_map]; rfl

theorem countT_replicate (k : ℕ) (b : Bool) : countT (List.replicate k b) = if b then k else 0 := by
  unfold countT; cases b <;> simp

theorem countT_expand (m : List Bool) (k : ℕ) : countT (expand m k) = countT m * k := by
  unfold expand
  induction m with
  | nil => simp [countT]
  | cons b m ih =>
    rw [List.map_cons, List.flatten_cons, countT_append, ih, countT_replicate]
    cases b
    · simp [countT]
    · simp only [if_true, countT, List.filter_cons, id, List.length_cons]; ring

/-- across a flatten every alive feature becomes `mult` alive features (and dead ones `mult` dead
ones): the count is the product with the spatial size -/
theorem flatten_is_product (hws : wellShaped p = true) (n s mult : ℕ) (hn : n < p.length)
    (hop : p[n] = .flat s mult) :
    (aliveMasks p l α).getD n [] = expand ((aliveMasks p l α).getD s []) mult ∧
    countT ((aliveMasks p l α).getD n []) = countT ((aliveMasks p l α).getD s []) * mult := by
  have h : (aliveMasks p l α).getD n [] = expand ((aliveMasks p l α).getD s []) mult := by
    rw [alive_eq p l α (srcsBefore_of_wellShaped p hws) n hn, hop]; rfl
  exact ⟨h, by rw [h, countT_expand]⟩

/-- both sides of a residual sum carry identical alive features (in every supported program) -/
theorem residual_operands_identical (hl : computeLabels p = some l) (hws : wellShaped p = true)
    (hsup : supported p = true) (n a b : ℕ) (hn : n < p.length)
    (hop : p[n] = .add a b) :
    (aliveMasks p l α).getD a [] = (aliveMasks p l α).getD b [] ∧
    (aliveMasks p l α).getD n [] = (aliveMasks p l α).getD a [] := by
  have h := coherent_of_bookkeeping (V := ℕ) ⟨fun _ _ _ v => v, fun _ _ => 0, fun _ _ v => v,
    fun _ _ v => v, fun _ _ v => v, fun _ u v => u + v, fun _ _ v => v⟩ (fun n => List.replicate
      (match p.getD n (.input 0) with | .input c => c | _ => 0) 0) p l α hl hws hsup
    (by
      intro k hk
      unfold SemOK
      cases hk' : p[k] <;> simp
      simp [List.getD_eq_getElem?_getD, List.getElem?_eq_getElem hk, hk']) n hn
  rw [hop] at h
  unfold Coherent gm at h
  exact ⟨h.2.2.2.1, h.2.2.1⟩

/-- a depthwise convolution's alive outputs are the alive features of the tensor feeding it -/
theorem depthwise_follows_input (hl : computeLabels p = some l) (hws : wellShaped p = true)
    (hsup : supported p = true) (n s : ℕ) (a : LAttr) (hn : n < p.length)
    (hop : p[n] = .dw s a) :
    (aliveMasks p l α).getD n [] = (aliveMasks p l α).getD s [] := by
  have h := coherent_of_bookkeeping (V := ℕ) ⟨fun _ _ _ v => v, fun _ _ => 0, fun _ _ v => v,
    fun _ _ v => v, fun _ _ v => v, fun _ u v => u + v, fun _ _ v => v⟩ (fun n => List.replicate
      (match p.getD n (.input 0) with | .input c => c | _ => 0) 0) p l α hl hws hsup
    (by
      intro k hk
      unfold SemOK
      cases hk' : p[k] <;> simp
      simp [List.getD_eq_getElem?_getD, List.getElem?_eq_getElem hk, hk']) n hn
  rw [hop] at h
  unfold Coherent gm at h
  exact h.2

/-- **a layer invoked again**: at the new call site it produces the alive features it produces
where it is defined, and the two tensors it is applied to carry identical alive features (it has
one masker and slices its weights by one input-features mask) -/
theorem reused_layer_sites_tied (hl : computeLabels p = some l) (hws : wellShaped p = true)
    (hsup : supported p = true) (n s o ls c : ℕ) (a : LAttr) (hn : n < p.length)
    (hop : p[n] = .reuse s o ls c a) :
    (aliveMasks p l α).getD n [] = (aliveMasks p l α).getD o [] ∧
    (aliveMasks p l α).getD s [] = (aliveMasks p l α).getD ls [] := by
  have h := coherent_of_bookkeeping (V := ℕ) ⟨fun _ _ _ v => v, fun _ _ => 0, fun _ _ v => v,
    fun _ _ v => v, fun _ _ v => v, fun _ u v => u + v, fun _ _ v => v⟩ (fun n => List.replicate
      (match p.getD n (.input 0) with | .input c => c | _ => 0) 0) p l α hl hws hsup
    (by
      intro k hk
      unfold SemOK
      cases hk' : p[k] <;> simp
      simp [List.getD_eq_getElem?_getD, List.getElem?_eq_getElem hk, hk']) n hn
  rw [hop] at h
  unfold Coherent gm at h
  exact ⟨h.2.1, h.2.2.1⟩

/-- **a depthwise layer invoked again**: the tensor it is applied to at the new call site, its
output there, and its output where it is defined all carry the same alive features -/
theorem reused_depthwise_sites_tied (hl : computeLabels p = some l) (hws : wellShaped p = true)
    (hsup : supported p = true) (n s o ls : ℕ) (a : LAttr) (hn : n < p.length)
    (hop : p[n] = .reuseDw s o ls a) :
    (aliveMasks p l α).getD n [] = (aliveMasks p l α).getD s [] ∧
    (aliveMasks p l α).getD n [] = (aliveMasks p l α).getD o [] := by
  have h := coherent_of_bookkeeping (V := ℕ) ⟨fun _ _ _ v => v, fun _ _ => 0, fun _ _ v => v,
    fun _ _ v => v, fun _ _ v => v, fun _ u v => u + v, fun _ _ v => v⟩ (fun n => List.replicate
      (match p.getD n (.input 0) with | .input c => c | _ => 0) 0) p l α hl hws hsup
    (by
      intro k hk
      unfold SemOK
      cases hk' : p[k] <;> simp
      simp [List.getD_eq_getElem?_getD, List.getElem?_eq_getElem hk, hk']) n hn
  rw [hop] at h
  unfold Coherent gm at h
  exact ⟨h.2.1, h.2.2⟩

/-- **the masker classes are exactly the connected components of the sharing graph**: two nodes get
the same masker iff a path of kept edges (element-wise ops, residual sums, depthwise convs, the two
ties of a layer invoked again) joins them — layers that need not agree are never tied, layers that
must agree always are -/
theorem masker_classes_are_sharing_components (hl : computeLabels p = some l)
    (hws : wellShaped p = true) (a b : ℕ) (ha : a < p.length) (hb : b < p.length) :
    l.getD a 0 = l.getD b 0 ↔ Conn (keptEdges p) a b :=
  classes_are_components p l hl hws a b ha hb

/-- the number of input features a layer is exported with is the number of alive features of the
tensor feeding it (what it reports and is charged for): the exported network is shape-consistent -/
theorem exported_in_width (ms : List (List Bool)) (n : ℕ) :
    (keptIdx (inMask p ms n)).length = countT (ms.getD ((getOp p n).inputs.headD 0) []) := by
  unfold inMask
  generalize ms.getD ((getOp p n).inputs.headD 0) [] = m
  unfold keptIdx countT
  induction m using List.reverseRecOn with
  | nil => rfl
  | append_singleton m b ih =>
    rw [List.length_append, List.length_singleton, List.range_succ, List.filter_append, List.filter_append,
      List.length_append, List.length_append]
    have h1 : (List.range m.length).filter (fun i => (m ++ [b]).getD i false)
        = (List.range m.length).filter (fun i => m.getD i false) := by
      apply List.filter_congr
      intro i hi
      simp only [List.mem_range] at hi
      simp [List.getD_eq_getElem?_getD, List.getElem?_append_left hi]
    rw [h1, ih]
    cases b <;> simp [List.getD_eq_getElem?_getD]

/-- **the exported network is shape-consistent for every mask assignment** (also with layers
excluded from the search): the tensor that reaches a converted layer in the exported network has
exactly as many channels as the layer was exported with input channels — at the level of the
abstract network semantics, for every supported program, input and layer semantics -/
theorem export_shape_consistent {V : Type} [AddCommMonoid V] (σ : Sem V) (inp : ℕ → List V)
    (hl : computeLabels p = some l) (hws : wellShaped p = true) (hsup : supported p = true)
    (hsem : ∀ n (hn : n < p.length), SemOK σ (aliveMasks p l α) inp (p[n], n)) (s : ℕ) (hs : s < p.length) :
    (gv (runBoth σ (aliveMasks p l α) inp p.zipIdx).2 s).length
      = (compress (gm (aliveMasks p l α) s) (idxFrom 0 (gm (aliveMasks p l α) s).length)).length := by
  have hco := coherent_of_bookkeeping σ inp p l α hl hws hsup hsem
  have hinv := run_inv σ (aliveMasks p l α) inp p p.length (le_refl _) hco
  have htake : p.zipIdx.take p.length = p.zipIdx := by apply List.take_of_length_le; simp
  rw [htake] at hinv
  obtain ⟨-, -, h⟩ := hinv
  obtain ⟨h1, -, h3⟩ := h s hs
  rw [h3]
  apply compress_length_eq
  rw [idxFrom_length]; exact h1.symm

/-- every converted convolution / linear layer keeps at least one output feature in the export
plan, whatever the mask parameters (the keep-alive feature; C08 at network level) -/
theorem exported_layer_keeps_a_feature (g : Group) (hw : 0 < g.width) (a : List Rat) :
    1 ≤ countT (featMask g a) := by
  unfold featMask
  split
  · rw [countT_replicate]; simp only [if_true]; omega
  · have h1 := C08.out_features_opt_pos g.width hw (ofList a)
    unfold countTrue at h1; unfold countT; exact h1

/-! ### the features calculators themselves (`plinio/graph/features_calculation.py`)

The real classes compute the *number* of features and the features *mask* by two separate recursions over
the calculator tree (count: constant / producer attribute / × multiplier / sum; mask: ones / producer mask /
every entry repeated / concatenation).  For every tree — any nesting of flatten and concat over searchable,
fixed and input leaves — the number is exactly the number of alive entries of the mask, and the mask has the
width of the tensor.  (`Drivers/FeatCalc.lean` runs these definitions against the real classes.) -/

theorem expand_length (m : List Bool) (k : ℕ) : (expand m k).length = m.length * k := by
  unfold expand
  induction m with
  | nil => simp
  | cons b m ih =>
    rw [List.map_cons, List.flatten_cons, List.length_append, ih, List.length_replicate, List.length_cons]; ring

mutual
theorem calculator_features_eq_alive_mask : ∀ c : FC, c.features = countT c.mask
  | .const n => by simp [FC.features, FC.mask, countT_replicate]
  | .attr m => rfl
  | .flat p k => by
      rw [FC.features, FC.mask, countT_expand, calculator_features_eq_alive_mask p, Nat.mul_comm]
  | .cat l => by rw [FC.features, FC.mask]; exact calculators_sum_eq_alive_masks l
theorem calculators_sum_eq_alive_masks : ∀ l : List FC, FC.featuresSum l = countT (FC.masks l)
  | [] => rfl
  | c :: cs => by
      rw [FC.featuresSum, FC.masks, countT_append, calculator_features_eq_alive_mask c,
        calculators_sum_eq_alive_masks cs]
end

mutual
theorem calculator_mask_length : ∀ c : FC, c.mask.length = c.width
  | .const n => by simp [FC.mask, FC.width]
  | .attr m => rfl
  | .flat p k => by rw [FC.mask, FC.width, expand_length, calculator_mask_length p]
  | .cat l => by rw [FC.mask, FC.width]; exact calculators_masks_length l
theorem calculators_masks_length : ∀ l : List FC, (FC.masks l).length = FC.widthSum l
  | [] => rfl
  | c :: cs => by
      rw [FC.masks, FC.widthSum, List.length_append, calculator_mask_length c, calculators_masks_length cs]
end

/-- the alive features never exceed the width, on every tree -/
theorem calculator_features_le_width (c : FC) : c.features ≤ c.width := by
  rw [calculator_features_eq_alive_mask, ← calculator_mask_length]
  unfold countT; exact List.length_filter_le _ _

/-- non-vacuity: flatten(×2) of a concat of a pruned layer, a fixed width and a flattened pruned layer -/
example :
    let c : FC := .flat (.cat [.attr [true, false, true], .const 2, .flat (.attr [false, true]) 3]) 2
    c.features = 14 ∧ c.width = 22 ∧ countT c.mask = 14 := by decide

/-! ### the two unsupported topologies (open known findings), witnessed on the model -/

/-- residual sum with a concat operand: `y = cat(conv(x), x); z = conv(y); y + z` — the two
operands of the sum get different alive features (here 2 vs 1 of 3) -/
theorem add_with_concat_operand_unsound :
    let p : Prog := [.input 1, .conv 0 2 {}, .cat [1, 0], .conv 2 3 {}, .add 2 3, .flat 4 1,
                     .lin 5 2 {}, .output 6]
    let α : ℕ → List Rat := fun g => if g = 1 then [0, 1] else [0, 0, 1]
    supported p = false ∧
    ((computeLabels p).map fun l => ((aliveMasks p l α).getD 2 [], (aliveMasks p l α).getD 3 []))
      = some ([false, true, true], [false, false, true]) := by decide +kernel

/-- depthwise convolution fed by a concat: its sharing component holds no features-defining
node, so it has no masker at all -/
theorem depthwise_after_concat_has_no_masker :
    let p : Prog := [.input 1, .conv 0 2 {}, .cat [1, 0], .dw 2 {}, .flat 3 1, .lin 4 2 {}, .output 5]
    supported p = false ∧
    ((computeLabels p).map fun l => (groupOf p l (l.getD 3 0)).isSome) = some false := by
  decide +kernel

/-- a layer invoked twice whose call sites are fed by concats: `g = L(cat(a1, x)); g2 = L(cat(a2, x))` —
the producers `a1`, `a2` keep different maskers, so the tensors fed to the two call sites carry different alive
features (here 2 vs 3 of 3) while the layer has one set of weights -/
theorem layer_twice_fed_by_concat_unsound :
    let p : Prog := [.input 1, .conv 0 2 {}, .cat [1, 0], .conv 0 2 {}, .cat [3, 0], .conv 2 2 {},
                     .reuse 4 5 2 2 {}, .cat [5, 6], .flat 7 1, .lin 8 2 {}, .output 9]
    let α : ℕ → List Rat := fun g => if g = 1 then [0, 1] else [1, 1]
    supported p = false ∧ wellShaped p = true ∧
    ((computeLabels p).map fun l => ((aliveMasks p l α).getD 2 [], (aliveMasks p l α).getD 4 []))
      = some ([false, true, true], [true, true, true]) := by decide +kernel

end PlinioVerif.C09
