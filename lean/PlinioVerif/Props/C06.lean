import PlinioVerif.Lemmas.SuperNet
/-!
# C06 — SuperNet cost is the coefficient-weighted mix of branch costs

Property theorems only.  `snCost` is the model of `SuperNet._get_single_cost` /
`SuperNetCombiner.get_cost` / `link_combiners_to_branches` (tied to the code by
`harness/props/c06.py`): `targetList shared g` is `_unique_leaf_modules` or `_leaf_modules` (one entry
per call site), `θ c` the coefficients combiner `c` holds, `u n` the unit cost of the leaf called at
node `n` (its cost function at that node's output shape), `branchCost … i` the cost `cost_i` of
branch `i` (unique leaves, **first** call site's node).  Statements hold over any commutative
semiring / any linearly ordered field, for every graph, every coefficient and cost assignment.
-/
namespace PlinioVerif.C06
open PlinioVerif.SuperNet Finset

section semiring
variable {K : Type} [CommSemiring K]

/-- **C06, first clause**: the cost is the sum, over the target list, of `Σᵢ cᵢ·θᵢ` for every choice
block (once per name for a shared metric, once per call site otherwise), plus — with `full_cost` —
the cost of every layer outside choice blocks; layers inside branches are charged through their
combiner only. -/
theorem cost_is_mix (shared full : Bool) (θ : String → List K) (u : Nat → K) (g : Graph) :
    snCost shared full θ u g =
      ((targetList shared g).map fun l =>
        if l.isComb then
          ∑ i ∈ range l.nargs, branchCost u (leafModules g) (parentOf l.name) i * (θ l.name).getD i 0
        else if full && !l.inBranch then u l.node else 0).sum :=
  snCost_eq_sum shared full θ u g

/-- the two parts of the cost: blocks, and (only with `full_cost`) fixed layers -/
theorem cost_is_blocks_plus_fixed (shared full : Bool) (θ : String → List K) (u : Nat → K) (g : Graph) :
    snCost shared full θ u g =
      (((targetList shared g).filter (·.isComb)).map fun l =>
        blockMix (θ l.name) (branchCost u (leafModules g) (parentOf l.name)) l.nargs).sum +
      (if full then (((targetList shared g).filter fun l => !l.isComb && !l.inBranch).map
        fun l => u l.node).sum else 0) := by
  rw [snCost_eq_sum]
  induction targetList shared g with
  | nil => cases full <;> simp
  | cons l L ih =>
    simp only [List.map_cons, List.sum_cons, ih, List.filter_cons]
    unfold contrib
    cases hc : l.isComb <;> cases hb : l.inBranch <;> cases full <;> simp [add_assoc, add_left_comm]

/-- without `full_cost` layers outside choice blocks cost nothing -/
theorem cost_without_full_cost (shared : Bool) (θ : String → List K) (u : Nat → K) (g : Graph) :
    snCost shared false θ u g =
      (((targetList shared g).filter (·.isComb)).map fun l =>
        blockMix (θ l.name) (branchCost u (leafModules g) (parentOf l.name)) l.nargs).sum := by
  rw [cost_is_blocks_plus_fixed]; simp

/-- per-invocation metrics charge a block once per call site: the block part of the cost is
`Σ_c (number of call sites of c) · mix_c` — a block invoked twice is charged twice -/
theorem blocks_charged_per_call_site (M : String → K) (g : Graph) :
    ((((targetList false g).filter (·.isComb)).map (·.name)).map M).sum =
      ∑ c ∈ (((leafModules g).filter (·.isComb)).map (·.name)).toFinset,
        (((leafModules g).filter (·.isComb)).map (·.name)).count c • M c := by
  unfold targetList
  simp only [Bool.false_eq_true, if_false]
  exact Finset.sum_list_map_count _ M

/-- under hard selection a block's mix is its winner's cost: closed form of the hard cost -/
theorem hard_cost_closed_form (shared full : Bool) (w : String → Nat) (u : Nat → K) (g : Graph)
    (hw : SelectionOk g w) :
    snCost shared full (hardTheta g w) u g =
      ((targetList shared g).map fun l =>
        if l.isComb then branchCost u (leafModules g) (parentOf l.name) (w l.name)
        else if full && !l.inBranch then u l.node else 0).sum := by
  rw [snCost_eq_sum]
  congr 1
  apply List.map_congr_left
  intro l hl
  exact contrib_hard hw full u l (mem_targetList hl)

/-- `full_cost` adds exactly the cost of the layers outside choice blocks, whatever the
coefficients -/
theorem full_cost_adds_fixed_layers (shared : Bool) (θ : String → List K) (u : Nat → K) (g : Graph) :
    snCost shared true θ u g = snCost shared false θ u g +
      (((targetList shared g).filter fun l => !l.isComb && !l.inBranch).map fun l => u l.node).sum := by
  rw [cost_is_blocks_plus_fixed, cost_is_blocks_plus_fixed]; simp

/-- **C06, last clause, per-invocation metrics**: under hard selection the cost (with `full_cost`) is
the metric computed from scratch on the exported network — provided every layer of a winning
branch is called once per call site of its block and **all call sites of a module have the same
output shape** (`SitesSane`; K8 below shows the hypothesis cannot be dropped), and export keeps by
name what the cost code charges by name (`NamesSane`, established by C03). Blocks invoked any
number of times. -/
theorem hard_cost_eq_export_cost {w : String → Nat} {u : Nat → K} {g0 g : Graph} (hwf : WF g0)
    (he : exportGraph w g0 = some g) (hsel : SelectionOk g0 w) (hn : NamesSane w g0 g)
    (hu : SitesSane w u g0) :
    snCost false true (hardTheta g0 w) u g0 = plainCost false u g :=
  hard_eq_export_per_invocation (exportGraph_spec hwf he) hsel hn hu

/-- **C06, last clause, shared metrics**: no hypothesis on shapes or call sites is needed — every
module is charged once, at its first call site, by the SuperNet and on the exported network. -/
theorem hard_cost_eq_export_cost_shared {w : String → Nat} {u : Nat → K} {g0 g : Graph} (hwf : WF g0)
    (he : exportGraph w g0 = some g) (hsel : SelectionOk g0 w) (hn : NamesSane w g0 g) :
    snCost true true (hardTheta g0 w) u g0 = plainCost true u g :=
  hard_eq_export_shared (exportGraph_spec hwf he) hsel hn

end semiring

section ordered
variable {K : Type} [Field K] [LinearOrder K] [IsStrictOrderedRing K]

/-- **C06, "between the cheapest and the most expensive"**, for ANY probability vector and ANY
branch costs over any linearly ordered field: the mix is at least some `cᵢ` and at most some `cⱼ`. -/
theorem mix_between_min_max (n : Nat) (θ c : Nat → K) (hθ : ∀ i < n, 0 ≤ θ i)
    (hsum : ∑ i ∈ range n, θ i = 1) :
    (∃ i < n, c i ≤ ∑ k ∈ range n, c k * θ k) ∧ (∃ j < n, ∑ k ∈ range n, c k * θ k ≤ c j) :=
  convex_between n θ c hθ hsum

/-- … for the combiner of the model: `get_cost` of a block lies between the costs of two of its
branches. -/
theorem block_cost_between (θ : List K) (u : Nat → K) (ls : List Leaf) (parent : List (List Char))
    (nb : Nat) (hθ : ∀ i < nb, 0 ≤ θ.getD i 0) (hsum : ∑ i ∈ range nb, θ.getD i 0 = 1) :
    (∃ i < nb, branchCost u ls parent i ≤ combinerCost θ u ls parent nb) ∧
    (∃ j < nb, combinerCost θ u ls parent nb ≤ branchCost u ls parent j) := by
  rw [combinerCost_eq]
  exact convex_between nb (fun i => θ.getD i 0) (branchCost u ls parent) hθ hsum

/-- **C06, network level**: whenever every combiner holds a probability vector, there are two
selections (one branch per block) whose hard costs bracket the cost — the cost lies between the
cheapest and the most expensive selection.  Shared and per-invocation metrics, blocks invoked any
number of times, `full_cost` on or off. -/
theorem cost_between_cheapest_and_most_expensive (shared full : Bool) (θ : String → List K)
    (u : Nat → K) (g : Graph)
    (hnb : ∀ l ∈ leafModules g, l.isComb = true → l.nargs = nBranches g l.name)
    (hprob : ∀ l ∈ leafModules g, l.isComb = true →
      (∀ i < l.nargs, 0 ≤ (θ l.name).getD i 0) ∧ ∑ i ∈ range l.nargs, (θ l.name).getD i 0 = 1) :
    ∃ wlo whi : String → Nat, SelectionOk g wlo ∧ SelectionOk g whi ∧
      snCost shared full (hardTheta g wlo) u g ≤ snCost shared full θ u g ∧
      snCost shared full θ u g ≤ snCost shared full (hardTheta g whi) u g := by
  classical
  let B := fun c => branchCost u (leafModules g) (parentOf c)
  let mix := fun c => blockMix (θ c) (B c) (nBranches g c)
  let Plo := fun c i => i < nBranches g c ∧ B c i ≤ mix c
  let Phi := fun c i => i < nBranches g c ∧ mix c ≤ B c i
  let wlo : String → Nat := fun c => if h : ∃ i, Plo c i then Classical.choose h else 0
  let whi : String → Nat := fun c => if h : ∃ i, Phi c i then Classical.choose h else 0
  have hex : ∀ l ∈ leafModules g, l.isComb = true → (∃ i, Plo l.name i) ∧ (∃ i, Phi l.name i) := by
    intro l hl hc
    obtain ⟨h1, h2⟩ := hprob l hl hc
    rw [hnb l hl hc] at h1 h2
    obtain ⟨⟨i, hi, hle⟩, ⟨j, hj, hge⟩⟩ :=
      convex_between (nBranches g l.name) (fun i => (θ l.name).getD i 0) (B l.name) h1 h2
    exact ⟨⟨i, hi, hle⟩, ⟨j, hj, hge⟩⟩
  have hlo : ∀ l ∈ leafModules g, l.isComb = true → Plo l.name (wlo l.name) := by
    intro l hl hc
    have h := (hex l hl hc).1
    simp only [wlo, dif_pos h]
    exact Classical.choose_spec h
  have hhi : ∀ l ∈ leafModules g, l.isComb = true → Phi l.name (whi l.name) := by
    intro l hl hc
    have h := (hex l hl hc).2
    simp only [whi, dif_pos h]
    exact Classical.choose_spec h
  have hoklo : SelectionOk g wlo := fun l hl hc =>
    ⟨hnb l hl hc, by rw [hnb l hl hc]; exact (hlo l hl hc).1⟩
  have hokhi : SelectionOk g whi := fun l hl hc =>
    ⟨hnb l hl hc, by rw [hnb l hl hc]; exact (hhi l hl hc).1⟩
  refine ⟨wlo, whi, hoklo, hokhi, ?_, ?_⟩
  · rw [snCost_eq_sum, snCost_eq_sum]
    apply List.sum_le_sum
    intro l hl
    have hl' := mem_targetList hl
    rw [contrib_hard hoklo full u l hl']
    unfold contribHard contrib
    split
    · rename_i hc
      rw [hnb l hl' hc]; exact (hlo l hl' hc).2
    · exact le_refl _
  · rw [snCost_eq_sum, snCost_eq_sum]
    apply List.sum_le_sum
    intro l hl
    have hl' := mem_targetList hl
    rw [contrib_hard hokhi full u l hl']
    unfold contribHard contrib
    split
    · rename_i hc
      rw [hnb l hl' hc]; exact (hhi l hl' hc).2
    · exact le_refl _

end ordered

/-! ### K8: call sites at different output shapes -/

/-- a block of two branches invoked twice with a pooling layer in between (nodes 3 and 7 are the
two call sites of the combiner) -/
def twiceAtTwoShapes : Graph := [
  Node.input 0,
  Node.leaf ⟨.module, "b.sn_branches.0"⟩ [0],
  Node.leaf ⟨.module, "b.sn_branches.1"⟩ [0],
  Node.combine "b.sn_combiner" [1, 2],
  Node.leaf ⟨.module, "pool"⟩ [3],
  Node.leaf ⟨.module, "b.sn_branches.0"⟩ [4],
  Node.leaf ⟨.module, "b.sn_branches.1"⟩ [4],
  Node.combine "b.sn_combiner" [5, 6],
  Node.output 7]

/-- ops of branch 0: 64 at the first call site (8×8), 16 at the second (4×4) -/
def opsAtTwoShapes : Nat → Nat := fun n => if n = 1 then 64 else if n = 5 then 16 else 0

/-- **K8**: for a per-invocation metric the model (like the code) charges the first call site's
output shape at both call sites — 128 where the exported network costs 80.  Without the hypothesis
"all call sites of a block have the same output shape" the clause "hard cost = cost of the
exported network" is false. -/
theorem hard_cost_ne_export_cost_when_shapes_differ :
    snCost (Q := Nat) false true (hardTheta twiceAtTwoShapes fun _ => 0) opsAtTwoShapes twiceAtTwoShapes = 128 ∧
    (exportGraph (fun _ => 0) twiceAtTwoShapes).map (plainCost (Q := Nat) false opsAtTwoShapes) = some 80 ∧
    sameUnitCost opsAtTwoShapes twiceAtTwoShapes = false ∧
    sitesSaneB (fun _ => 0) opsAtTwoShapes twiceAtTwoShapes = false := by
  decide +kernel

/-- the same block at the same shape twice: charged twice, equal to the exported network -/
example :
    snCost (Q := Nat) false true (hardTheta twiceAtTwoShapes fun _ => 0) (fun n => if n = 1 ∨ n = 5 then 64 else 0)
      twiceAtTwoShapes = 128 ∧
    (exportGraph (fun _ => 0) twiceAtTwoShapes).map
      (plainCost (Q := Nat) false fun n => if n = 1 ∨ n = 5 then 64 else 0) = some 128 := by
  decide +kernel

/-- the hypotheses of `hard_cost_eq_export_cost` are satisfiable: the block invoked twice at the
same shape -/
example : ∃ g, WF twiceAtTwoShapes ∧ exportGraph (fun _ => 0) twiceAtTwoShapes = some g ∧
    SelectionOk twiceAtTwoShapes (fun _ => 0) ∧ NamesSane (fun _ => 0) twiceAtTwoShapes g ∧
    SitesSane (fun _ => 0) (fun n => if n = 1 ∨ n = 5 then (64 : Nat) else 0) twiceAtTwoShapes :=
  ⟨[Node.input 0, Node.leaf ⟨.module, "b.sn_branches.0"⟩ [0], Node.E, Node.E,
    Node.leaf ⟨.module, "pool"⟩ [1], Node.leaf ⟨.module, "b.sn_branches.0"⟩ [4], Node.E, Node.E,
    Node.output 5],
   wfB_sound (by decide +kernel), by decide +kernel, selectionOkB_sound (by decide +kernel),
   namesSaneB_sound (by decide +kernel), sitesSaneB_sound (by decide +kernel)⟩

end PlinioVerif.C06
