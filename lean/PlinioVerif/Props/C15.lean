import PlinioVerif.Lemmas.CostSpec
import Mathlib.Data.List.Induction
/-!
# C15 — cost-function look-up depends on the layer, not on registration order

Property theorems only.  `lookup` is the model of `CostSpec.__getitem__` (tied to the code by
the exhaustive correspondence of `harness/props/c15.py`), `specLookup` the documented rule.
All statements quantify over **every** registration list (any length, any constraints).
-/
namespace PlinioVerif.C15
open PlinioVerif.CostSpec
variable {Spec Fn : Type}

/-- number of unconstrained registrations for the layer type -/
def nUnc (es : List (Entry Spec Fn)) : Nat := (es.filter Entry.unc).length

/-- The scan implements the documented rule (constrained match, else unconstrained, else
default; conflict iff two constrained matches) for every list with at most one unconstrained
registration per layer type. -/
theorem lookup_eq_spec (es : List (Entry Spec Fn)) (h : nUnc es ≤ 1) (s : Spec) :
    lookup es s = specLookup es s := by
  obtain ⟨h1, h2⟩ := foldl_noConstr s es ({} : St Fn) rfl rfl
  unfold lookup specLookup finish
  unfold nUnc at h
  cases hcm : es.filter (Entry.cmatch s) with
  | nil =>
    simp only [hcm, List.length_nil, Nat.not_succ_le_zero, decide_false] at h1
    have h2' := h2 h1
    simp only [hcm, List.head?_nil] at h2'
    simp only [h1, h2']
    cases hum : es.filter Entry.unc with
    | nil => rfl
    | cons u us =>
      cases us with
      | nil => rfl
      | cons v vs => simp [hum] at h
  | cons e cs =>
    cases cs with
    | nil =>
      simp only [hcm, List.length_cons, List.length_nil] at h1
      have h1' : (List.foldl (step s) ({} : St Fn) es).raised = false := by simpa using h1
      have h2' := h2 h1'
      simp only [hcm, List.head?_cons] at h2'
      simp [h1', h2']
    | cons e' cs' =>
      simp only [hcm, List.length_cons] at h1
      have h1' : (List.foldl (step s) ({} : St Fn) es).raised = true := by
        rw [h1]; simp
      simp [h1']

/-- The documented rule does not depend on the order of registration. -/
theorem specLookup_perm {es es' : List (Entry Spec Fn)} (hp : es.Perm es') (h : nUnc es ≤ 1)
    (s : Spec) : specLookup es s = specLookup es' s := by
  have hc := hp.filter (Entry.cmatch s)
  have hu := hp.filter Entry.unc
  unfold nUnc at h
  unfold specLookup
  cases hcm : es.filter (Entry.cmatch s) with
  | nil =>
    rw [hcm] at hc
    rw [List.nil_perm.mp hc]
    cases hum : es.filter Entry.unc with
    | nil => rw [hum] at hu; rw [List.nil_perm.mp hu]
    | cons u us =>
      cases us with
      | nil =>
        rw [hum] at hu
        have hfu : es'.filter Entry.unc = [u] := List.perm_singleton.mp hu.symm
        rw [hfu]
      | cons v vs => simp [hum] at h
  | cons e cs =>
    cases cs with
    | nil =>
      rw [hcm] at hc
      have hfe : es'.filter (Entry.cmatch s) = [e] := List.perm_singleton.mp hc.symm
      rw [hfe]
    | cons e' cs' =>
      rw [hcm] at hc
      have hl := hc.length_eq
      cases hcm' : es'.filter (Entry.cmatch s) with
      | nil => simp [hcm'] at hl
      | cons a as =>
        cases as with
        | nil => simp [hcm'] at hl
        | cons b bs => rfl

/-- **C15, headline**: the answer is the same for every order in which the patterns were
registered. -/
theorem lookup_perm {es es' : List (Entry Spec Fn)} (hp : es.Perm es') (h : nUnc es ≤ 1)
    (s : Spec) : lookup es s = lookup es' s := by
  have h' : nUnc es' ≤ 1 := by
    unfold nUnc at *; rw [← (hp.filter Entry.unc).length_eq]; exact h
  rw [lookup_eq_spec es h, lookup_eq_spec es' h', specLookup_perm hp h]

/-- An error for conflicting models is raised **only** when two constrained patterns both
match — for every registration list, with no hypothesis on unconstrained entries. -/
theorem conflict_iff (es : List (Entry Spec Fn)) (s : Spec) :
    lookup es s = .conflict ↔ 2 ≤ (es.filter (Entry.cmatch s)).length := by
  obtain ⟨h1, -⟩ := foldl_noConstr s es ({} : St Fn) rfl rfl
  unfold lookup finish
  by_cases hr : (List.foldl (step s) ({} : St Fn) es).raised = true
  · simp only [hr, if_true, true_iff]
    rw [h1] at hr; simpa using hr
  · have hr' : (List.foldl (step s) ({} : St Fn) es).raised = false := by simpa using hr
    simp only [hr', Bool.false_eq_true, if_false]
    rw [h1] at hr'
    have : ¬ 2 ≤ (es.filter (Entry.cmatch s)).length := by simpa using hr'
    constructor
    · intro h; split at h <;> cases h
    · intro h; exact absurd h this

/-- A constrained match beats the unconstrained pattern wherever either was registered. -/
theorem constrained_wins (es : List (Entry Spec Fn)) (s : Spec) (e : Entry Spec Fn)
    (h : es.filter (Entry.cmatch s) = [e]) : lookup es s = .ok e.fn := by
  obtain ⟨h1, h2⟩ := foldl_noConstr s es ({} : St Fn) rfl rfl
  simp only [h, List.length_cons, List.length_nil] at h1
  have h1' : (List.foldl (step s) ({} : St Fn) es).raised = false := by simpa using h1
  have h2' := h2 h1'
  simp only [h, List.head?_cons] at h2'
  simp [lookup, finish, h1', h2']

/-- The default is used exactly when nothing registered for the type applies. -/
theorem default_iff (es : List (Entry Spec Fn)) (s : Spec) :
    lookup es s = .dflt ↔ es.filter (Entry.cmatch s) = [] ∧ es.filter Entry.unc = [] := by
  obtain ⟨h1, h2⟩ := foldl_noConstr s es ({} : St Fn) rfl rfl
  unfold lookup finish
  by_cases hr : (List.foldl (step s) ({} : St Fn) es).raised = true
  · simp only [hr, if_true]
    rw [h1] at hr
    have : 2 ≤ (es.filter (Entry.cmatch s)).length := by simpa using hr
    constructor
    · intro h; cases h
    · intro ⟨h, _⟩; rw [h] at this; simp at this
  · have hr' : (List.foldl (step s) ({} : St Fn) es).raised = false := by simpa using hr
    have h2' := h2 hr'
    simp only [hr', Bool.false_eq_true, if_false, h2']
    cases hcm : es.filter (Entry.cmatch s) with
    | cons e cs => simp
    | nil =>
      simp only [List.head?_nil, true_and]
      cases hum : (es.filter Entry.unc).getLast? with
      | none => simp [List.getLast?_eq_none_iff.mp hum]
      | some u =>
        have : es.filter Entry.unc ≠ [] := by intro h; simp [h] at hum
        simp [this]

/-! ### histories: registrations and look-ups interleaved on one specification object -/

/-- what a user does with one `CostSpec` object: register a pattern, or look a layer up -/
inductive HOp (Spec Fn : Type) where
  | reg (e : Entry Spec Fn)
  | get (s : Spec)

/-- the object after a history: the registered list (a look-up changes nothing), and the answers
given so far -/
def runHist (ops : List (HOp Spec Fn)) : List (Entry Spec Fn) × List (Res Fn) :=
  ops.foldl (fun st op => match op with
    | .reg e => (st.1 ++ [e], st.2)
    | .get s => (st.1, st.2 ++ [lookup st.1 s])) ([], [])

def regsOf (ops : List (HOp Spec Fn)) : List (Entry Spec Fn) :=
  ops.filterMap fun op => match op with | .reg e => some e | .get _ => none

theorem runHist_regs (ops : List (HOp Spec Fn)) : (runHist ops).1 = regsOf ops := by
  unfold runHist regsOf
  induction ops using List.reverseRecOn with
  | nil => rfl
  | append_singleton ops op ih =>
    rw [List.foldl_append, List.filterMap_append]
    cases op with
    | reg e => simp only [List.foldl_cons, List.foldl_nil, List.filterMap_cons, List.filterMap_nil]; rw [ih]
    | get s => simp only [List.foldl_cons, List.foldl_nil, List.filterMap_cons, List.filterMap_nil,
        List.append_nil]; rw [ih]

/-- **a look-up depends on the layer and on the patterns registered so far only**: whatever was
looked up before (a model was built on the specification, then the specification was extended),
the answer is the documented rule on the registered patterns -/
theorem lookup_ignores_earlier_lookups (ops : List (HOp Spec Fn)) (s : Spec)
    (h : nUnc (regsOf ops) ≤ 1) :
    (runHist (ops ++ [.get s])).2.getLast? = some (specLookup (regsOf ops) s) := by
  unfold runHist
  rw [List.foldl_append]
  simp only [List.foldl_cons, List.foldl_nil, List.getLast?_append, List.getLast?_singleton,
    Option.some_or]
  have := runHist_regs ops
  unfold runHist at this
  rw [this, lookup_eq_spec _ h]

/-- non-vacuity: look-up, extension with a depthwise-style pattern, look-up again -/
example : (runHist (Spec := Bool) [.reg ⟨none, (0 : Nat)⟩, .get true, .reg ⟨some id, 1⟩, .get true]).2
    = [.ok 0, .ok 1] := by decide

/-! ### non-vacuity and the regression witness for the pinned tree -/

/-- depthwise-style constraint registered *before* the unconstrained pattern, on a layer
that satisfies it: the documented rule and the model agree on the constrained function … -/
example : lookup (Spec := Bool) [⟨some id, 1⟩, ⟨none, 0⟩] true = .ok 1 ∧
          nUnc (Spec := Bool) [⟨some id, (1 : Nat)⟩, ⟨none, 0⟩] ≤ 1 := by decide

/-- … while the scan of the pinned tree raised "two conflicting cost models" on it. -/
theorem pinned_scan_order_dependent :
    lookupPinned (Spec := Bool) [⟨some id, 1⟩, ⟨none, 0⟩] true = .conflict ∧
    lookupPinned (Spec := Bool) [⟨none, 0⟩, ⟨some id, 1⟩] true = .ok 1 := by decide

end PlinioVerif.C15
